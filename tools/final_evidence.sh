#!/bin/bash
# Regenerates every evidence file from a quick run on the current (clean) tree and validates it against the schema.
cd /verif || exit 2
git -C /repo diff --quiet || { echo "/repo has uncommitted changes"; exit 2; }
for id in C01 C02 C03 C04 C05 C06 C07 C08 C09 C10 C11 C12 C13 C14 C15 C16 C17 C18 C19 C20; do
  rm -f evidence/$id.json
  out=$(VERIF_SEED=${VERIF_SEED:-1} ./check $id quick 2>&1); rc=$?
  echo "$id exit=$rc $(echo "$out" | grep -E "^$id:" | tail -1)"
  echo "$out" | grep -E "^VIOLATION|HARNESS" | head -3
done
python3-vt - <<'PY'
import json, jsonschema, glob
schema=json.load(open('/root/.vp/EVIDENCE.schema.json'))
for f in sorted(glob.glob('/verif/evidence/C*.json')):
    e=json.load(open(f))
    try:
        jsonschema.validate(e, schema)
        c=e.get('coverage',{})
        print(f.split('/')[-1], 'valid', 'evaluations', c.get('evaluations'), 'distinct', c.get('distinct_nontrivial'), 'violations', e.get('violations'))
    except Exception as ex:
        print(f, 'INVALID', str(ex)[:200])
PY
