#!/usr/bin/env python3
"""Generate a family of Rust type definitions (the shapes C20 lists) that derive BuildSchema +
Serialize + Deserialize, with value generators, as src/generated.rs of the c20run crate.

usage: gen.py <seed> <n_types> <out.rs> [--private-generics]
Also writes <out.rs>.meta.json: per checked type its identity, expected fullname (when known at
generation time) and whether two identities must have distinct fullnames.
"""
import json, random, sys

MODNS = "c20run.generated"


class Ty:
    def __init__(self, name):
        self.name = name          # Rust ident
        self.kind = None          # struct | newtype | unit_enum | union_enum | generic
        self.decl = ""
        self.genimpl = ""
        self.fullname = None      # Avro fullname when it is a named Avro type known at generation time
        self.branch = None        # serde variant name to use when this type is a union branch (None: unusable)
        self.is_union = False     # maps to an Avro union (cannot be nested in Option / another union)
        self.cat = None           # union-branch category (for the "distinct branches" rule)
        self.generic = False
        self.check = True


class G:
    def __init__(self, seed, n, private_generics):
        self.r = random.Random(seed)
        self.n = n
        self.types = []
        self.private_generics = private_generics
        self.meta = {"checked": [], "distinct_groups": []}
        self.counter = 0

    def fresh(self, prefix):
        self.counter += 1
        return f"{prefix}{self.counter}"

    # ---- field type expressions -------------------------------------------------------------
    # returns dict(ty=rust type, attrs=[field attrs], union=bool, genexpr=None|str)
    def prim(self):
        r = self.r
        c = r.choice(["bool", "i32", "i64", "f32", "f64", "String", "u16", "u32", "u64", "i8", "i16", "usize",
                      "bytes", "bytes", "fixed", "fixedlogical", "logical", "logical", "logical", "i64", "i32", "String"])
        AVRO = {"bool": "boolean", "i32": "int", "i64": "long", "f32": "float", "f64": "double", "String": "string",
                "u16": "int", "u32": "long", "u64": "long", "i8": "int", "i16": "int", "usize": "long"}
        if c == "bytes":
            return dict(ty="Vec<u8>", attrs=['#[serde(with = "serde_bytes")]'], union=False, avro="bytes")
        if c == "fixed":
            n = r.choice([1, 2, 4, 12, 16, 32])
            return dict(ty=f"[u8; {n}]", attrs=['#[serde(with = "serde_bytes")]'], union=False, avro=f"fixed({n})")
        if c == "fixedlogical":
            return self.fixed_logical()
        if c == "logical":
            k = r.choice(["Uuid", "Date", "TimeMillis", "TimeMicros", "TimestampMillis", "TimestampMicros", "decimal", "custom"])
            if k == "Uuid":
                return dict(ty="String", attrs=['#[avro_schema(logical_type = "Uuid")]'], union=False, avro="string/uuid")
            LN = {"Date": "date", "TimeMillis": "time-millis", "TimeMicros": "time-micros", "TimestampMillis": "timestamp-millis", "TimestampMicros": "timestamp-micros"}
            if k in ("Date", "TimeMillis"):
                return dict(ty="i32", attrs=[f'#[avro_schema(logical_type = "{k}")]'], union=False, avro=f"int/{LN[k]}")
            if k in ("TimeMicros", "TimestampMillis", "TimestampMicros"):
                return dict(ty="i64", attrs=[f'#[avro_schema(logical_type = "{k}")]'], union=False, avro=f"long/{LN[k]}")
            if k == "decimal":
                scale = r.choice([0, 1, 2, 5])
                return dict(ty="rust_decimal::Decimal", attrs=[f'#[avro_schema(scale = {scale}, precision = 28)]'], union=False,
                            genexpr=f"crate::gen_decimal(r, {scale})", avro=f"bytes/decimal({scale},28)")
            return dict(ty="String", attrs=['#[avro_schema(logical_type = "my-custom-type")]'], union=False, avro="string/my-custom-type")
        return dict(ty=c, attrs=[], union=False, avro=AVRO[c])

    def fixed_logical(self):
        """a byte-array field carrying a logical type: the derive gives it its own named fixed definition"""
        r = self.r
        if r.random() < 0.5:
            return dict(ty="[u8; 12]", attrs=['#[avro_schema(logical_type = "Duration")]', '#[serde(with = "serde_bytes")]'], union=False, avro="fixed(12)/duration")
        n = r.choice([2, 4, 16])
        return dict(ty=f"[u8; {n}]", attrs=['#[avro_schema(logical_type = "my-fixed-type")]', '#[serde(with = "serde_bytes")]'], union=False, avro=f"fixed({n})/my-fixed-type")

    def named_ref(self, allow_union=True):
        cands = [t for t in self.types if not t.generic and (allow_union or not t.is_union)]
        if not cands:
            return None
        t = self.r.choice(cands)
        return dict(ty=t.name, attrs=[], union=t.is_union)

    def generic_inst(self):
        gens = [t for t in self.types if t.generic]
        if not gens:
            return None
        g = self.r.choice(gens)
        arg = self.r.choice(["i32", "String", "i64", "bool", "f64"] + [t.name for t in self.types if not t.generic and not t.is_union][:6])
        return dict(ty=f"{g.name}<{arg}>", attrs=[], union=False, inst=(g.name, arg))

    def ftype(self, depth=0, allow_union=True, self_name=None):
        r = self.r
        roll = r.random()
        if depth >= 3 or roll < 0.35:
            return self.prim()
        if roll < 0.50:
            x = self.named_ref(allow_union)
            return x or self.prim()
        if roll < 0.56:
            x = self.generic_inst()
            return x or self.prim()
        if roll < 0.66 and allow_union:
            inner = self.ftype(depth + 1, allow_union=False, self_name=self_name)
            if inner["attrs"]:
                # attributes (serde_bytes / logical types) apply to the field type itself, not through Option
                inner = self.prim_plain()
            return dict(ty=f"Option<{inner['ty']}>", attrs=[], union=True)
        if roll < 0.78:
            inner = self.ftype(depth + 1, allow_union=True, self_name=self_name)
            if inner["attrs"]:
                inner = self.prim_plain()
            return dict(ty=f"Vec<{inner['ty']}>", attrs=[], union=False)
        if roll < 0.86:
            inner = self.ftype(depth + 1, allow_union=True, self_name=self_name)
            if inner["attrs"]:
                inner = self.prim_plain()
            m = r.choice(["std::collections::HashMap", "std::collections::BTreeMap"])
            return dict(ty=f"{m}<String, {inner['ty']}>", attrs=[], union=False)
        if roll < 0.94:
            inner = self.ftype(depth + 1, allow_union=allow_union, self_name=self_name)
            if inner["attrs"]:
                inner = self.prim_plain()
            w = r.choice(["Box", "std::rc::Rc", "std::sync::Arc"])
            return dict(ty=f"{w}<{inner['ty']}>", attrs=[], union=inner["union"])
        if self_name and allow_union:
            return dict(ty=r.choice([f"Option<Box<{self_name}>>", f"Vec<{self_name}>"]), attrs=[], union=False, recursive=True)
        return self.prim()

    def prim_plain(self):
        return dict(ty=self.r.choice(["bool", "i32", "i64", "f64", "String", "u32"]), attrs=[], union=False)

    # ---- named types ------------------------------------------------------------------------
    def ns_attr(self, t, force=False):
        r = self.r
        if force or r.random() < 0.4:
            ns = r.choice(["ns1", "ns1.sub", "other_ns", ""])
            return ns
        return None

    DERIVES = "#[derive(serde_derive::Serialize, serde_derive::Deserialize, serde_avro_derive::BuildSchema, Debug, PartialEq, Clone)]"

    def fullname_of(self, name, ns):
        if ns is None:
            return f"{MODNS}.{name}"
        if ns == "":
            return name
        return f"{ns}.{name}"

    def make_struct(self):
        r = self.r
        t = Ty(self.fresh("S"))
        t.kind = "struct"
        ns = self.ns_attr(t)
        avro_name = t.name
        attrs = []
        if ns is not None and r.random() < 0.3:
            avro_name = f"Renamed{t.name}"
            attrs.append(f'#[avro_schema(name = {avro_name}, namespace = "{ns}")]')
        elif ns is not None:
            attrs.append(f'#[avro_schema(namespace = "{ns}")]')
        nf = r.randint(0, 6)
        fnames = r.sample(["a", "b", "c", "id", "next", "value", "items", "m", "r#type", "r#match", "name", "kind", "x", "y", "data", "ts"], nf)
        lines, gens = [], []
        t.expected_fields = {}
        for fn in fnames:
            ft = self.ftype(0, True, self_name=t.name)
            if ft.get("avro"):
                t.expected_fields[fn.replace("r#", "")] = ft["avro"]
            for a in ft["attrs"]:
                lines.append(f"\t{a}")
            lines.append(f"\tpub {fn}: {ft['ty']},")
            gens.append(f"\t\t\t{fn}: {ft.get('genexpr') or 'Gen::gen(r, d + 1)'},")
        t.decl = "\n".join([self.DERIVES] + attrs + [f"pub struct {t.name} {{"] + lines + ["}"])
        t.genimpl = f"impl Gen for {t.name} {{\n\tfn gen(r: &mut Rng, d: usize) -> Self {{\n\t\tlet _ = (&r, d);\n\t\t{t.name} {{\n" + "\n".join(gens) + "\n\t\t}\n\t}\n}"
        t.fullname = self.fullname_of(avro_name, ns)
        t.branch = t.fullname
        t.cat = ("named", t.fullname)
        return t

    def make_unit_enum(self):
        r = self.r
        t = Ty(self.fresh("E"))
        t.kind = "unit_enum"
        ns = self.ns_attr(t)
        attrs = [f'#[avro_schema(namespace = "{ns}")]'] if ns is not None else []
        vs = r.sample(["A", "B", "C", "Red", "Green", "Null", "X_1", "Clubs"], r.randint(1, 5))
        t.decl = "\n".join([self.DERIVES.replace("Clone)]", "Clone, Copy)]")] + attrs + [f"pub enum {t.name} {{"] + [f"\t{v}," for v in vs] + ["}"])
        arms = ", ".join(f"{t.name}::{v}" for v in vs)
        t.genimpl = f"impl Gen for {t.name} {{\n\tfn gen(r: &mut Rng, _d: usize) -> Self {{\n\t\t[{arms}][r.below({len(vs)})]\n\t}}\n}}"
        t.fullname = self.fullname_of(t.name, ns)
        t.branch = t.fullname
        t.cat = ("named", t.fullname)
        return t

    def make_newtype(self):
        r = self.r
        t = Ty(self.fresh("W"))
        t.kind = "newtype"
        ns = self.ns_attr(t)
        attrs = [f'#[avro_schema(namespace = "{ns}")]'] if ns is not None else []
        roll = r.random()
        if roll < 0.3:
            n = r.choice([3, 4, 16])
            inner_ty, fattr = f"[u8; {n}]", '#[serde(with = "serde_bytes")] '
            t.fullname = self.fullname_of(t.name, ns)
            t.branch = t.fullname
            t.cat = ("named", t.fullname)
        elif roll < 0.6:
            inner_ty, fattr = r.choice(["i32", "i64", "String", "f64", "bool"]), ""
            t.branch = {"i32": "Int", "i64": "Long", "String": "String", "f64": "Double", "bool": "Boolean"}[inner_ty]
            t.cat = ("prim", t.branch)
        else:
            cands = [x for x in self.types if not x.generic]
            if cands:
                x = r.choice(cands)
                inner_ty, fattr = x.name, ""
                t.branch, t.cat, t.is_union, t.fullname = x.branch, x.cat, x.is_union, x.fullname
            else:
                inner_ty, fattr = "i32", ""
                t.branch, t.cat = "Int", ("prim", "Int")
        t.decl = "\n".join([self.DERIVES] + attrs + [f"pub struct {t.name}({fattr}pub {inner_ty});"])
        t.genimpl = f"impl Gen for {t.name} {{\n\tfn gen(r: &mut Rng, d: usize) -> Self {{\n\t\t{t.name}(Gen::gen(r, d))\n\t}}\n}}"
        return t

    def make_union_enum(self):
        r = self.r
        t = Ty(self.fresh("U"))
        t.kind = "union_enum"
        t.is_union = True
        ns = r.choice(["nsu", "nsu.deep", "u2", "", ""])
        attrs = [f'#[avro_schema(namespace = "{ns}")]']
        variants, arms, cats = [], [], set()
        if r.random() < 0.6:
            variants.append('\t#[serde(rename = "Null")]\n\tNothing,')
            arms.append(f"{t.name}::Nothing")
            cats.add(("prim", "Null"))
        pool = []
        for p, b in [("i32", "Int"), ("i64", "Long"), ("f32", "Float"), ("f64", "Double"), ("bool", "Boolean"), ("String", "String")]:
            pool.append((p, "", b, ("prim", b)))
        pool.append(("Vec<u8>", '#[serde(with = "serde_bytes")] ', "Bytes", ("prim", "Bytes")))
        pool.append((f"Vec<{r.choice(['i32', 'String', 'f64'])}>", "", "Array", ("prim", "Array")))
        pool.append((f"std::collections::HashMap<String, {r.choice(['i64', 'bool'])}>", "", "Map", ("prim", "Map")))
        for x in self.types:
            if not x.generic and not x.is_union and x.branch and x.kind in ("struct", "unit_enum", "newtype"):
                pool.append((x.name, "", x.branch, x.cat))
        for n in (4, 16):
            pool.append((f"[u8; {n}]", '#[serde(with = "serde_bytes")] ', None, ("fixedvar", n)))
        r.shuffle(pool)
        k = 0
        for (ty, fattr, branch, cat) in pool:
            if len(variants) >= r.randint(2, 6):
                break
            if cat in cats:
                continue
            cats.add(cat)
            k += 1
            vname = f"V{k}"
            if branch is None:
                branch = f"{ns}.{t.name}.{vname}" if ns else f"{t.name}.{vname}"
            variants.append(f'\t#[serde(rename = "{branch}")]\n\t{vname}({fattr}{ty}),')
            arms.append(f"{t.name}::{vname}(Gen::gen(r, d + 1))")
        if len(arms) < 1:
            variants.append('\t#[serde(rename = "Int")]\n\tV0(i32),')
            arms.append(f"{t.name}::V0(Gen::gen(r, d + 1))")
        t.decl = "\n".join([self.DERIVES] + attrs + [f"pub enum {t.name} {{"] + variants + ["}"])
        body = "\n".join(f"\t\t\t{i} => {a}," for i, a in enumerate(arms[:-1])) + f"\n\t\t\t_ => {arms[-1]},"
        t.genimpl = f"impl Gen for {t.name} {{\n\tfn gen(r: &mut Rng, d: usize) -> Self {{\n\t\tlet _ = d;\n\t\tmatch r.below({len(arms)}) {{\n{body}\n\t\t}}\n\t}}\n}}"
        t.branch = None
        return t

    def make_generic(self):
        r = self.r
        t = Ty(self.fresh("G"))
        t.kind = "generic"
        t.generic = True
        t.check = False
        vis = "" if self.private_generics else "pub "
        fields = [("a", "T"), ("b", r.choice(["Vec<T>", "Option<T>", "i32", "String"])), ("c", r.choice(["i64", "Box<T>", "bool"]))]
        lines = [f"\tpub {n}: {ty}," for n, ty in fields]
        # fields that own a sub-definition (named after the struct and the field): byte arrays with a logical type, plain byte arrays
        for fname in ("d", "e"):
            roll = r.random()
            if roll < 0.35:
                fl = self.fixed_logical()
                lines += [f"\t{a}" for a in fl["attrs"]] + [f"\tpub {fname}: {fl['ty']},"]
                fields.append((fname, fl["ty"]))
            elif roll < 0.5:
                lines += ['\t#[serde(with = "serde_bytes")]', f"\tpub {fname}: [u8; {r.choice([3, 8])}],"]
                fields.append((fname, "fixed"))
        t.decl = "\n".join([self.DERIVES, f"{vis}struct {t.name}<T> {{"] + lines + ["}"])
        gens = "\n".join(f"\t\t\t{n}: Gen::gen(r, d + 1)," for n, _ in fields)
        t.genimpl = f"impl<T: Gen> Gen for {t.name}<T> {{\n\tfn gen(r: &mut Rng, d: usize) -> Self {{\n\t\t{t.name} {{\n{gens}\n\t\t}}\n\t}}\n}}"
        return t

    def run(self):
        r = self.r
        # a couple of generics first so that they can be instantiated
        for _ in range(2):
            self.types.append(self.make_generic())
        while len(self.types) < self.n:
            k = r.random()
            if k < 0.45:
                t = self.make_struct()
            elif k < 0.60:
                t = self.make_unit_enum()
            elif k < 0.75:
                t = self.make_newtype()
            elif k < 0.95:
                t = self.make_union_enum()
            else:
                t = self.make_generic()
            self.types.append(t)
        out = ["// @generated by c20gen/gen.py - do not edit", "#![allow(unused_imports, non_snake_case)]", "use crate::{Gen, Rng, Runtime};", ""]
        for t in self.types:
            out.append(t.decl)
            out.append(t.genimpl)
            out.append("")
        # every primitive width once under Option, in a Vec of Options and as map values: the union branch has to be found from
        # the Rust type alone (u32 maps to long, u8 / u16 / i8 / i16 to int, ...)
        prims = ["bool", "i8", "i16", "i32", "i64", "u16", "u32", "u64", "usize", "f32", "f64", "String"]
        k = self.fresh("P")
        opt = f"OptPrims{k}"
        flds = [f"\tpub o_{p.lower()}: Option<{p}>," for p in prims] + [f"\tpub v_{p.lower()}: Vec<Option<{p}>>," for p in ("u32", "u16", "i8", "u64")] + ["\tpub m_u32: std::collections::BTreeMap<String, Option<u32>>,"]
        out.append("\n".join([self.DERIVES, f"pub struct {opt} {{"] + flds + ["}"]))
        inits = [f"o_{p.lower()}: Gen::gen(r, d + 1)," for p in prims] + [f"v_{p.lower()}: Gen::gen(r, d + 1)," for p in ("u32", "u16", "i8", "u64")] + ["m_u32: Gen::gen(r, d + 1),"]
        out.append(f"impl Gen for {opt} {{\n\tfn gen(r: &mut Rng, d: usize) -> Self {{\n\t\t{opt} {{\n\t\t\t" + "\n\t\t\t".join(inits) + "\n\t\t}\n\t}\n}")
        opt_prims = (opt, self.fullname_of(opt, None))
        # mutually recursive family: an enum-as-union two of whose record variants contain the enum again (so the union node is
        # entered more than twice while its schema is written), one of them twice
        k = self.fresh("X")
        expr, add, neg = f"Expr{k}", f"Add{k}", f"Neg{k}"
        ns = r.choice([None, "rec.ns"])
        nsattr = [f'#[avro_schema(namespace = "{ns}")]'] if ns else []
        fa, fn_ = self.fullname_of(add, ns), self.fullname_of(neg, ns)
        out.append("\n".join([self.DERIVES] + nsattr + [f"pub enum {expr} {{", '\t#[serde(rename = "Long")]', "\tLit(i64),", f'\t#[serde(rename = "{fa}")]', f"\tAdd(Box<{add}>),", f'\t#[serde(rename = "{fn_}")]', f"\tNeg(Box<{neg}>),", "}"]))
        out.append("\n".join([self.DERIVES] + nsattr + [f"pub struct {add} {{", f"\tpub l: {expr},", f"\tpub r: {expr},", "}"]))
        out.append("\n".join([self.DERIVES] + nsattr + [f"pub struct {neg} {{", f"\tpub e: {expr},", "\tpub tags: Vec<String>,", "}"]))
        out.append(f"impl Gen for {expr} {{\n\tfn gen(r: &mut Rng, d: usize) -> Self {{\n\t\tif d > 4 {{\n\t\t\treturn {expr}::Lit(Gen::gen(r, d));\n\t\t}}\n\t\tmatch r.below(3) {{\n\t\t\t0 => {expr}::Lit(Gen::gen(r, d)),\n\t\t\t1 => {expr}::Add(Box::new(Gen::gen(r, d + 1))),\n\t\t\t_ => {expr}::Neg(Box::new(Gen::gen(r, d + 1))),\n\t\t}}\n\t}}\n}}")
        out.append(f"impl Gen for {add} {{\n\tfn gen(r: &mut Rng, d: usize) -> Self {{\n\t\t{add} {{ l: Gen::gen(r, d + 1), r: Gen::gen(r, d + 1) }}\n\t}}\n}}")
        out.append(f"impl Gen for {neg} {{\n\tfn gen(r: &mut Rng, d: usize) -> Self {{\n\t\t{neg} {{ e: Gen::gen(r, d + 1), tags: Gen::gen(r, d + 1) }}\n\t}}\n}}")
        recursive_family = [(expr, None), (add, fa), (neg, fn_)]
        # structs generic over a const parameter (and one over a type and a const): the instantiations differ only by the constant
        vis = "" if self.private_generics else "pub "
        cgs = []
        for k in range(r.randint(1, 2)):
            name = self.fresh("CG")
            mixed = r.random() < 0.5
            params = "<T, const N: usize>" if mixed else "<const N: usize>"
            fields = (["\tpub a: T,"] if mixed else []) + ['\t#[serde(with = "serde_bytes")]', "\tpub payload: [u8; N],", "\tpub tag: i32,"]
            out.append("\n".join([self.DERIVES, f"{vis}struct {name}{params} {{"] + fields + ["}"]))
            gb = "impl<T: Gen, const N: usize> Gen for " + name + "<T, N>" if mixed else "impl<const N: usize> Gen for " + name + "<N>"
            ginit = ("a: Gen::gen(r, d + 1), " if mixed else "") + "payload: Gen::gen(r, d + 1), tag: Gen::gen(r, d + 1)"
            out.append(f"{gb} {{\n\tfn gen(r: &mut Rng, d: usize) -> Self {{\n\t\t{name} {{ {ginit} }}\n\t}}\n}}")
            insts = [f"{name}<i32, {n}>" if mixed else f"{name}<{n}>" for n in (4, 16, 2)]
            if mixed:
                insts.append(f"{name}<String, 4>")
            cgs.append((name, insts))
        # holder struct instantiating every generic at two different arguments
        gens = [t for t in self.types if t.generic]
        checks = []
        if gens or cgs:
            lines, gl = [], []
            group = []
            for i, (name, insts) in enumerate(cgs):
                for j, inst in enumerate(insts[:2] + insts[3:]):
                    lines.append(f"\tpub cg{i}_{j}: {inst},")
                    gl.append(f"\t\t\tcg{i}_{j}: Gen::gen(r, d + 1),")
            for i, g in enumerate(gens):
                for j, arg in enumerate(["i32", "String"]):
                    lines.append(f"\tpub g{i}_{j}: {g.name}<{arg}>,")
                    gl.append(f"\t\t\tg{i}_{j}: Gen::gen(r, d + 1),")
            out.append("\n".join([self.DERIVES, f"{vis}struct GenericHolder {{"] + lines + ["}"]))
            out.append("impl Gen for GenericHolder {\n\tfn gen(r: &mut Rng, d: usize) -> Self {\n\t\tGenericHolder {\n" + "\n".join(gl) + "\n\t\t}\n\t}\n}")
            checks.append(("GenericHolder", "GenericHolder", f"{MODNS}.GenericHolder"))
            for g in gens:
                for arg in ["i32", "String", "bool"]:
                    checks.append((f"{g.name}<{arg}>", f"{g.name}<{arg}>", None))
                self.meta["distinct_groups"].append([f"{g.name}<{a}>" for a in ["i32", "String", "bool"]])
            for name, insts in cgs:
                for inst in insts:
                    checks.append((inst, inst, None))
                self.meta["distinct_groups"].append(list(insts))
        for t in self.types:
            if t.check and not t.generic:
                checks.append((t.name, t.name, t.fullname if t.kind in ("struct", "unit_enum") else None))
        for name, full in recursive_family:
            checks.append((name, name, full))
        checks.append((opt_prims[0], opt_prims[0], opt_prims[1]))
        out.append("pub fn run_all(rt: &mut Runtime) {")
        for ty, ident, full in checks:
            out.append(f"\trt.check::<{ty}>({json.dumps(ident)});")
            self.meta["checked"].append({"identity": ident, "expected_fullname": full})
        out.append("}")
        # all named types must have pairwise distinct fullnames
        self.meta["named_fullnames"] = {t.name: t.fullname for t in self.types if t.kind in ("struct", "unit_enum") and t.fullname}
        self.meta["expected_fields"] = {t.fullname: t.expected_fields for t in self.types if t.kind == "struct" and getattr(t, "expected_fields", None)}
        return "\n".join(out) + "\n"


def main():
    seed, n, outp = int(sys.argv[1]), int(sys.argv[2]), sys.argv[3]
    g = G(seed, n, "--private-generics" in sys.argv)
    src = g.run()
    open(outp, "w").write(src)
    json.dump(g.meta, open(outp + ".meta.json", "w"), indent=1)


if __name__ == "__main__":
    main()
