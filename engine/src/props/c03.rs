//! C03 — decoder conformance: every spec-valid encoding (any block layout) decodes to the
//! defined value; listed malformations yield Err.

use crate::bridge::collect::untyped;
use crate::gen::schema::{gen_schema, shape_hash, SchemaGenCfg};
use crate::gen::value::ValueGen;
use crate::io::schedule;
use crate::refavro::value::*;
use crate::rng::Rng;
use crate::run::{Ctx, PropSpec};
use crate::sut::*;
use serde_json::json;

pub const SPEC: PropSpec = PropSpec {
	id: "C03",
	level: "exploration",
	rule: "case = (random schema, boundary-biased value, reference encoding with a random legal layout: arrays/maps split into 1..n blocks each with positive or negative count (+byte size), decimals sign-extended up to 16 bytes) decoded by the crate through typed hints, deserialize_any, slice and chunked reader; then single-point malformations at recorded positions (boolean byte 2..255, invalid UTF-8 in a string the target reads as string, union/enum index n / n+1 / -1 / 2^40, negative length) and every strict prefix (all when <= 256 bytes, 48 sampled otherwise) must give Err; non-trivial = schema with >= 2 nodes or >= 1 malformation applied; distinct by hash(schema shape, encoded bytes)",
	assumptions: &[
		"reference encoder (engine/src/refavro/value.rs) produces only spec-valid encodings; Avro binary under a fixed schema is prefix-free, so every strict prefix of a valid non-empty encoding is invalid",
	],
	cases: (50_000_000, 4_000_000_000),
	secs: (30, 600),
	required: &["valid_decoded_ok", "valid_skipped_ok", "malformations_rejected", "prefixes_rejected", "layouts_with_negative_blocks"],
	run_case,
	once: None,
	panics_are_violations: true,
	cpu_kill_secs: 60,
	max_workers: 16,
};

pub fn run_case(ctx: &mut Ctx, case_seed: u64) {
	let mut rng = Rng::new(case_seed);
	let mut cfg = SchemaGenCfg::default();
	cfg.max_nodes = *rng.pick(&[1, 4, 10, 24]);
	let rs = gen_schema(&mut rng, &cfg);
	let via = pick_via(&mut rng);
	let (schema, text) = make_schema(&rs, via, &mut rng);
	let schema = match schema {
		Ok(s) => s,
		Err(e) => {
			ctx.violation(
				format!("schema-rejected {}", err_sig(&e)),
				case_seed,
				json!({"schema": rs.spell(None).compact(), "text": text, "error": e}),
			);
			return;
		}
	};
	let mut vg = ValueGen::new(&rs);
	vg.budget = *rng.pick(&[5, 50, 300]);
	let v = vg.gen(&mut rng);
	let mut out = Vec::new();
	let marks;
	{
		let mut lay = Layout::random(&mut rng);
		if let Err(e) = encode(&rs, 0, &v, &mut lay, &mut out) {
			ctx.violation("harness-encode-failed", case_seed, json!({"error": e.0}));
			return;
		}
		marks = lay.marks;
	}
	let bytes = out;
	if marks.iter().any(|m| m.kind == MarkKind::BlockSize) {
		ctx.count("layouts_with_negative_blocks");
	}
	let n_blocks = marks.iter().filter(|m| m.kind == MarkKind::BlockCount).count();
	ctx.max("blocks_in_one_encoding", n_blocks as u64);
	let describe = |extra: serde_json::Value| {
		json!({"schema": rs.spell(None).compact(), "value": v.to_json(), "bytes": hex_full(&bytes[..bytes.len().min(2048)]), "extra": extra})
	};
	let lim = Limits::default();
	// ---- valid encoding must decode to v
	let mo = ModeOwned::random(&mut rng);
	let o = de_slice_val(&schema, &rs, &bytes, &lim, &mo);
	match &o.res {
		Ok(got) if got == &v && o.consumed == bytes.len() => {}
		other => {
			ctx.violation(
				format!(
					"valid-encoding-not-decoded slice {}",
					match other {
						Err(e) => err_sig(e),
						Ok(_) => "wrong-value-or-consumption".into(),
					}
				),
				case_seed,
				describe(json!({"target": mo.describe(), "got": format!("{:?}", other.as_ref().map(|x| x.to_json())).chars().take(500).collect::<String>(), "consumed": o.consumed})),
			);
			return;
		}
	}
	let sched = schedule(&mut rng, bytes.len());
	let o2 = de_reader_val(&schema, &rs, &bytes, sched.clone(), &lim, &mo);
	match &o2.res {
		Ok(got) if got == &v && o2.consumed == bytes.len() => {}
		other => {
			ctx.violation(
				format!(
					"valid-encoding-not-decoded reader {}",
					match other {
						Err(e) => err_sig(e),
						Ok(_) => "wrong-value-or-consumption".into(),
					}
				),
				case_seed,
				describe(json!({"target": mo.describe(), "schedule": sched, "consumed": o2.consumed, "got": format!("{:?}", other.as_ref().map(|x| x.to_json())).chars().take(500).collect::<String>()})),
			);
			return;
		}
	}
	let any = de_slice_any(&schema, &bytes, &lim);
	let want = untyped(&rs, 0, &v);
	match &any.res {
		Ok(got) if *got == want && any.consumed == bytes.len() => {}
		other => {
			ctx.violation(
				"valid-encoding-not-decoded any",
				case_seed,
				describe(json!({"got": format!("{other:?}").chars().take(500).collect::<String>()})),
			);
			return;
		}
	}
	// a valid encoding is also valid for a target that wants none of it: skipping must succeed and stop at the same place
	{
		let (r, used) = de_slice_seed(&schema, &bytes, &lim, std::marker::PhantomData::<serde::de::IgnoredAny>);
		let mut rd = crate::io::ChunkedBufRead::new(&bytes, sched.clone());
		let r2 = de_reader_seed(&schema, &mut rd, &lim, std::marker::PhantomData::<serde::de::IgnoredAny>);
		let bad = match (&r, &r2) {
			(Err(e), _) => Some(format!("slice {}", err_sig(e))),
			(_, Err(e)) => Some(format!("reader {}", err_sig(e))),
			(Ok(_), Ok(_)) if used != bytes.len() || rd.pos != bytes.len() => Some("wrong-consumption".to_owned()),
			_ => None,
		};
		if let Some(b) = bad {
			ctx.violation(
				format!("valid-encoding-not-skipped {b}"),
				case_seed,
				describe(json!({"slice": format!("{:?}", r.as_ref().map(|_| used)), "reader": format!("{:?}", r2.as_ref().map(|_| rd.pos)), "schedule": sched})),
			);
			return;
		}
		ctx.count("valid_skipped_ok");
	}
	ctx.count("valid_decoded_ok");
	ctx.distinct_bytes(&[&shape_hash(&rs).to_le_bytes(), &bytes]);
	ctx.sample(|| describe(json!({"marks": marks.len(), "blocks": n_blocks})));

	// ---- malformations
	let typed = ModeOwned::default_typed();
	let mut applied = 0;
	let mut idxs: Vec<usize> = (0..marks.len()).collect();
	rng.shuffle(&mut idxs);
	for &mi in idxs.iter().take(12) {
		let m = marks[mi];
		let mut variants: Vec<(String, Vec<u8>)> = Vec::new();
		let splice = |replacement: &[u8]| -> Vec<u8> {
			let mut b = bytes[..m.start].to_vec();
			b.extend_from_slice(replacement);
			b.extend_from_slice(&bytes[m.end..]);
			b
		};
		match m.kind {
			MarkKind::Bool => {
				let x = 2 + rng.below(254) as u8;
				variants.push((format!("bool-byte-{x}"), splice(&[x])));
				variants.push(("bool-byte-2".into(), splice(&[2])));
				variants.push(("bool-byte-255".into(), splice(&[255])));
			}
			MarkKind::StrPayload if m.end > m.start => {
				let mut p = bytes[m.start..m.end].to_vec();
				let k = rng.below(p.len());
				p[k] = *rng.pick(&[0xFFu8, 0xC0, 0xF8, 0x80]);
				// a lone continuation / invalid lead byte; make sure it really is invalid
				if std::str::from_utf8(&p).is_err() {
					variants.push(("invalid-utf8".into(), splice(&p)));
				}
			}
			MarkKind::UnionIndex | MarkKind::EnumIndex => {
				let which = if m.kind == MarkKind::UnionIndex { "union" } else { "enum" };
				for (label, val) in [
					("n", m.n as i64),
					("n+1", m.n as i64 + 1),
					("-1", -1i64),
					("2^40", 1i64 << 40),
					("i64min", i64::MIN),
				] {
					let mut r = Vec::new();
					put_long(val, &mut r);
					variants.push((format!("{which}-index-{label}"), splice(&r)));
				}
			}
			MarkKind::StrLen | MarkKind::BytesLen => {
				for val in [-1i64, -64, i64::MIN] {
					let mut r = Vec::new();
					put_long(val, &mut r);
					variants.push((format!("negative-length-{val}"), splice(&r)));
				}
			}
			_ => {}
		}
		for (label, bad) in variants {
			applied += 1;
			// the reference itself must consider it invalid (guards the harness)
			if decode_datum(&rs, &bad).map_or(false, |(_, used)| used == bad.len()) {
				ctx.count("malformation_still_valid_per_reference");
				continue;
			}
			let r1 = de_slice_val(&schema, &rs, &bad, &lim, &typed);
			let r2 = de_slice_any(&schema, &bad, &lim);
			let sched = schedule(&mut rng, bad.len());
			let r3 = de_reader_val(&schema, &rs, &bad, sched, &lim, &typed);
			// invalid UTF-8 is only detectable when the target reads the string as a string
			let any_must_err = true;
			let fabricated = r1.res.is_ok() || r3.res.is_ok() || (any_must_err && r2.res.is_ok());
			if fabricated {
				let kind = label.split('-').take(2).collect::<Vec<_>>().join("-");
				ctx.violation(
					format!("malformed-accepted kind={kind}"),
					case_seed,
					json!({"schema": rs.spell(None).compact(), "valid_bytes": hex_full(&bytes[..bytes.len().min(512)]), "malformed_bytes": hex_full(&bad[..bad.len().min(512)]),
						"malformation": label, "at": [m.start, m.end],
						"typed_slice": format!("{:?}", r1.res.as_ref().map(|v| v.to_json())).chars().take(300).collect::<String>(),
						"any_slice": format!("{:?}", r2.res).chars().take(300).collect::<String>(),
						"typed_reader": format!("{:?}", r3.res.as_ref().map(|v| v.to_json())).chars().take(300).collect::<String>()}),
				);
			} else {
				ctx.count("malformations_rejected");
				ctx.count(&format!("malformation:{}", label.split('-').take(2).collect::<Vec<_>>().join("-")));
			}
		}
	}
	// ---- strict prefixes
	if !bytes.is_empty() {
		let cuts: Vec<usize> = if bytes.len() <= 256 {
			(0..bytes.len()).collect()
		} else {
			let mut c: Vec<usize> = (0..48).map(|_| rng.below(bytes.len())).collect();
			c.push(bytes.len() - 1);
			c.push(0);
			c
		};
		for cut in cuts {
			let p = &bytes[..cut];
			let r1 = de_slice_val(&schema, &rs, p, &lim, &typed);
			let r2 = if rng.chance(1, 4) {
				let sched = schedule(&mut rng, p.len());
				de_reader_val(&schema, &rs, p, sched, &lim, &typed).res.is_ok()
			} else {
				false
			};
			if r1.res.is_ok() || r2 {
				ctx.violation(
					"truncated-encoding-accepted",
					case_seed,
					describe(json!({"cut_at": cut, "got": format!("{:?}", r1.res.as_ref().map(|v| v.to_json())).chars().take(300).collect::<String>()})),
				);
				break;
			} else {
				ctx.count("prefixes_rejected");
			}
		}
	}
	if applied > 0 {
		ctx.count("cases_with_malformations");
	}
}
