#!/bin/bash
# usage: try_seeded.sh <seeded-id> <check-id>...   applies /verif/seeded/<id>/patch.diff to /repo, runs the quick checks, restores /repo
ID=$1; shift
cd /repo && git diff --quiet || { echo "/repo has uncommitted changes"; exit 2; }
git -C /repo apply /verif/seeded/$ID/patch.diff || { echo "patch does not apply"; git -C /repo reset -q --hard HEAD; exit 3; }
for C in "$@"; do
  echo "--- seeded $ID vs check $C"
  VERIF_SECS=${VERIF_SECS:-30} /verif/check $C quick 2>&1 | grep -E "VIOLATION|signature|^C[0-9]+:|KNOWN|HARNESS|nothing" | sort | uniq -c | sort -rn | head -8
done
git -C /repo reset -q --hard HEAD; git -C /repo status --short | head
