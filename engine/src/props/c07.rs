//! C07 — schema parsing resolves names per the specification; invalid schemas rejected.
//! C08 — fingerprint = CRC-64-AVRO of the Parsing Canonical Form (shares the generators).

use crate::gen::schema::{gen_schema, shape_hash, SchemaGenCfg};
use crate::json::J;
use crate::refavro::schema::*;
use crate::rng::Rng;
use crate::run::{Ctx, PropSpec};
use crate::sut::err_sig;
use serde_avro_fast::schema::SchemaMut;
use serde_json::json;

pub const SPEC: PropSpec = PropSpec {
	id: "C07",
	level: "exploration",
	rule: "valid: the schema AST (fullnames fixed first) is rendered to a random JSON spelling (namespace via dotted name / namespace attribute / inheritance / reset with \"\"; contradicting namespace next to a dotted name; definition placed at a random one of the type's occurrences, i.e. before OR after its uses; short vs full references; shuffled attribute order; doc/aliases/default/order/unknown attributes; primitives as strings or objects; optional decimal scale omitted; unicode escapes; whitespace) and parsed; the node graph read back through SchemaMut::nodes() must be bisimilar to the AST (kinds, fullnames, field names+order, symbols, sizes, logical types+parameters, reference targets) and its canonical form (hook H1) must equal the reference one. invalid: unknown reference (also one that spells an alias of a type of the document), duplicate fullname (same or different spelling), missing name/fields/symbols/items/values/size, record unconditionally containing itself (directly / through a record chain, also with forward references) must be rejected. distinct by hash(document text)",
	assumptions: &["spellings the specification leaves undefined (leading-dot references, nested type objects) are not generated as valid"],
	cases: (50_000_000, 4_000_000_000),
	secs: (30, 600),
	required: &["valid_parsed_ok", "with_use_before_definition", "invalid:unknown-reference", "invalid:duplicate-definition", "invalid:missing-attribute", "invalid:unconditional-cycle"],
	run_case,
	once: None,
	panics_are_violations: true,
	cpu_kill_secs: 60,
	max_workers: 16,
};

/// true when some reference to a named type appears (in document order) before its definition
fn has_forward_ref(j: &J) -> bool {
	// walk in document order collecting definitions and references
	fn walk(j: &J, defined: &mut Vec<String>, forward: &mut bool, ns: Option<String>) {
		match j {
			J::Str(s) => {
				if !matches!(s.as_str(), "null" | "boolean" | "int" | "long" | "float" | "double" | "bytes" | "string") {
					let full = if s.contains('.') {
						s.clone()
					} else {
						match &ns {
							Some(n) => format!("{n}.{s}"),
							None => s.clone(),
						}
					};
					if !defined.contains(&full) {
						*forward = true;
					}
				}
			}
			J::Arr(v) => {
				for x in v {
					walk(x, defined, forward, ns.clone());
				}
			}
			J::Obj(kv) => {
				let ty = j.get("type").and_then(|t| t.as_str()).unwrap_or("");
				let mut child_ns = ns.clone();
				if matches!(ty, "record" | "enum" | "fixed") {
					if let Some(name) = j.get("name").and_then(|n| n.as_str()) {
						let full = if name.contains('.') {
							name.to_owned()
						} else {
							let nsx = match j.get("namespace").and_then(|n| n.as_str()) {
								Some("") => None,
								Some(x) => Some(x.to_owned()),
								None => ns.clone(),
							};
							match nsx {
								Some(n) => format!("{n}.{name}"),
								None => name.to_owned(),
							}
						};
						if ty == "record" {
							child_ns = split_fullname(&full).0.map(|s| s.to_owned());
						}
						defined.push(full);
					}
				}
				for (k, v) in kv {
					match k.as_str() {
						"items" | "values" => walk(v, defined, forward, ns.clone()),
						"fields" => {
							if let J::Arr(fs) = v {
								for f in fs {
									if let Some(t) = f.get("type") {
										walk(t, defined, forward, child_ns.clone());
									}
								}
							}
						}
						_ => {}
					}
				}
			}
			_ => {}
		}
	}
	let mut fwd = false;
	walk(j, &mut Vec::new(), &mut fwd, None);
	fwd
}

pub fn run_case(ctx: &mut Ctx, case_seed: u64) {
	let mut rng = Rng::new(case_seed);
	let mut cfg = SchemaGenCfg::default();
	cfg.max_nodes = *rng.pick(&[1, 4, 10, 24, 40]);
	cfg.allow_big_fixed_decimal = true;
	let rs = gen_schema(&mut rng, &cfg);
	if rng.chance(1, 3) {
		return invalid_case(ctx, case_seed, &rs, &mut rng);
	}
	let j = rs.spell(Some(&mut rng));
	let text = if rng.coin() { j.styled(&mut rng) } else { j.compact() };
	if has_forward_ref(&j) {
		ctx.count("with_use_before_definition");
	}
	let parsed: Result<SchemaMut, _> = text.parse();
	let sm = match parsed {
		Ok(s) => s,
		Err(e) => {
			ctx.violation(
				format!("valid-document-rejected {}", err_sig(&e.to_string())),
				case_seed,
				json!({"document": text, "plain_spelling": rs.spell(None).compact(), "error": e.to_string()}),
			);
			return;
		}
	};
	let got = RSchema::from_schema_mut(&sm);
	if let Err(why) = bisimilar(&rs, &got) {
		let class: String = why.split(':').nth(1).unwrap_or("").split_whitespace().take(2).collect::<Vec<_>>().join("-");
		ctx.violation(
			format!("parsed-graph-differs {class}"),
			case_seed,
			json!({"document": text, "plain_spelling": rs.spell(None).compact(), "difference": why, "parsed_nodes": format!("{:?}", got.nodes).chars().take(1500).collect::<String>()}),
		);
		return;
	}
	#[cfg(ten0_serde_avro_fast_verif)]
	{
		match sm.verif_canonical_form() {
			Ok(pcf) if pcf == rs.pcf() => {}
			other => {
				ctx.violation(
					"canonical-form-differs-from-reference",
					case_seed,
					json!({"document": text, "crate": format!("{other:?}"), "reference": rs.pcf()}),
				);
				return;
			}
		}
	}
	// freezing a parsed document must work too
	if let Err(e) = text.parse::<serde_avro_fast::Schema>() {
		ctx.violation(
			format!("valid-document-rejected-by-Schema {}", err_sig(&e.to_string())),
			case_seed,
			json!({"document": text, "error": e.to_string()}),
		);
		return;
	}
	ctx.count("valid_parsed_ok");
	if rs.nodes.len() >= 2 {
		ctx.distinct_bytes(&[text.as_bytes()]);
	}
	ctx.sample(|| json!({"document": text, "reference_canonical_form": rs.pcf()}));
}

fn obj_remove(j: &mut J, key: &str) -> bool {
	if let J::Obj(kv) = j {
		let n = kv.len();
		kv.retain(|(k, _)| k != key);
		return kv.len() != n;
	}
	false
}

/// collect mutable pointers to every object node with a given "type"
fn find_typed<'a>(j: &'a mut J, types: &[&str], out: &mut Vec<*mut J>) {
	let is = matches!(j, J::Obj(_)) && j.get("type").and_then(|t| t.as_str()).map_or(false, |t| types.contains(&t));
	if is {
		out.push(j as *mut J);
	}
	match j {
		J::Arr(v) => {
			for x in v {
				find_typed(x, types, out);
			}
		}
		J::Obj(kv) => {
			for (_, v) in kv {
				find_typed(v, types, out);
			}
		}
		_ => {}
	}
}

fn invalid_case(ctx: &mut Ctx, case_seed: u64, rs: &RSchema, rng: &mut Rng) {
	let mut j = rs.spell(None);
	let class: &str;
	match rng.below(4) {
		0 => {
			// unknown reference: embed the document in a record with a dangling reference
			// (the last three spell an *alias* of a type of the document: aliases rename for schema resolution between
			// writer and reader, they do not define a name that can be referred to)
			let bogus = (*rng.pick(&["Missing", "a.b.Missing", "no.Such", "int2", "Int", "AliasOfEnum", "zz.AliasOfEnum", "other.AliasFull"])).to_owned();
			let aliased = J::Obj(vec![
				("name".into(), J::s("al")),
				(
					"type".into(),
					J::Obj(vec![
						("type".into(), J::s("enum")),
						("name".into(), J::s("zz.WithAlias")),
						("aliases".into(), J::Arr(vec![J::s("AliasOfEnum"), J::s("other.AliasFull")])),
						("symbols".into(), J::Arr(vec![J::s("A")])),
					]),
				),
			]);
			let alias_first = rng.coin();
			let via = rng.below(3);
			let dangling = match via {
				0 => J::s(&bogus),
				1 => J::Obj(vec![("type".into(), J::s("array")), ("items".into(), J::s(&bogus))]),
				_ => J::Arr(vec![J::s("null"), J::s(&bogus)]),
			};
			j = J::Obj(vec![
				("type".into(), J::s("record")),
				("name".into(), J::s("zz.Top")),
				(
					"fields".into(),
					J::Arr(if alias_first {
						vec![
							aliased,
							J::Obj(vec![("name".into(), J::s("d")), ("type".into(), dangling)]),
							J::Obj(vec![("name".into(), J::s("x")), ("type".into(), j)]),
						]
					} else {
						vec![
							J::Obj(vec![("name".into(), J::s("d")), ("type".into(), dangling)]),
							J::Obj(vec![("name".into(), J::s("x")), ("type".into(), j)]),
							aliased,
						]
					}),
				),
			]);
			class = "unknown-reference";
		}
		1 => {
			// duplicate definition of a fullname, same or different spelling
			let (a, b) = match rng.below(4) {
				0 => (
					J::Obj(vec![("type".into(), J::s("enum")), ("name".into(), J::s("q.E")), ("symbols".into(), J::Arr(vec![J::s("A")]))]),
					J::Obj(vec![
						("type".into(), J::s("enum")),
						("name".into(), J::s("E")),
						("namespace".into(), J::s("q")),
						("symbols".into(), J::Arr(vec![J::s("A")])),
					]),
				),
				1 => (
					J::Obj(vec![("type".into(), J::s("fixed")), ("name".into(), J::s("F")), ("size".into(), J::n(2))]),
					J::Obj(vec![("type".into(), J::s("record")), ("name".into(), J::s("F")), ("fields".into(), J::Arr(vec![]))]),
				),
				2 => (
					// inherited namespace vs dotted
					J::Obj(vec![("type".into(), J::s("fixed")), ("name".into(), J::s("G")), ("size".into(), J::n(2))]),
					J::Obj(vec![("type".into(), J::s("fixed")), ("name".into(), J::s("zz.G")), ("size".into(), J::n(3))]),
				),
				_ => (
					J::Obj(vec![("type".into(), J::s("enum")), ("name".into(), J::s("H")), ("namespace".into(), J::s("")), ("symbols".into(), J::Arr(vec![J::s("A")]))]),
					J::Obj(vec![
						("type".into(), J::s("record")),
						("name".into(), J::s("Inner")),
						("namespace".into(), J::s("")),
						(
							"fields".into(),
							J::Arr(vec![J::Obj(vec![
								("name".into(), J::s("h")),
								("type".into(), J::Obj(vec![("type".into(), J::s("enum")), ("name".into(), J::s("H")), ("symbols".into(), J::Arr(vec![J::s("B")]))])),
							])]),
						),
					]),
				),
			};
			j = J::Obj(vec![
				("type".into(), J::s("record")),
				("name".into(), J::s("Top")),
				("namespace".into(), J::s("zz")),
				(
					"fields".into(),
					J::Arr(vec![
						J::Obj(vec![("name".into(), J::s("a")), ("type".into(), a)]),
						J::Obj(vec![("name".into(), J::s("x")), ("type".into(), j)]),
						J::Obj(vec![("name".into(), J::s("b")), ("type".into(), b)]),
					]),
				),
			]);
			class = "duplicate-definition";
		}
		2 => {
			// missing required attribute
			let mut cands = Vec::new();
			find_typed(&mut j, &["record", "enum", "fixed", "array", "map"], &mut cands);
			if cands.is_empty() {
				return;
			}
			let target = *rng.pick(&cands);
			// SAFETY: pointers into `j`, which is alive and not otherwise borrowed here
			let node: &mut J = unsafe { &mut *target };
			let ty = node.get("type").and_then(|t| t.as_str()).unwrap_or("").to_owned();
			let key = match ty.as_str() {
				"record" => *rng.pick(&["name", "fields"]),
				"enum" => *rng.pick(&["name", "symbols"]),
				"fixed" => *rng.pick(&["name", "size"]),
				"array" => "items",
				_ => "values",
			};
			if !obj_remove(node, key) {
				return;
			}
			class = "missing-attribute";
		}
		_ => {
			// record unconditionally containing itself
			let n = 1 + rng.below(4);
			let names: Vec<String> = (0..n).map(|i| format!("C{i}")).collect();
			let forward = rng.coin();
			// chain C0 -> C1 -> ... -> C0, defined nested (backward refs) or as a union of
			// definitions with forward refs
			if forward {
				let mut defs = Vec::new();
				for i in 0..n {
					defs.push(J::Obj(vec![
						("type".into(), J::s("record")),
						("name".into(), J::s(&names[i])),
						(
							"fields".into(),
							J::Arr(vec![
								J::Obj(vec![("name".into(), J::s("pad")), ("type".into(), J::s("int"))]),
								J::Obj(vec![("name".into(), J::s("next")), ("type".into(), J::s(&names[(i + 1) % n]))]),
							]),
						),
					]));
				}
				defs.push(j);
				j = J::Arr(defs);
			} else {
				let mut inner = J::s(&names[0]);
				for i in (0..n).rev() {
					inner = J::Obj(vec![
						("type".into(), J::s("record")),
						("name".into(), J::s(&names[i])),
						(
							"fields".into(),
							J::Arr(vec![
								J::Obj(vec![("name".into(), J::s("x")), ("type".into(), J::s("long"))]),
								J::Obj(vec![("name".into(), J::s("next")), ("type".into(), inner)]),
							]),
						),
					]);
				}
				j = match rng.below(3) {
					0 => J::Obj(vec![("type".into(), J::s("array")), ("items".into(), inner)]),
					// the cycle hangs below records that are not part of it
					1 => J::Obj(vec![
						("type".into(), J::s("record")),
						("name".into(), J::s("OuterNotInCycle")),
						(
							"fields".into(),
							J::Arr(vec![
								J::Obj(vec![("name".into(), J::s("pad")), ("type".into(), J::s("int"))]),
								J::Obj(vec![("name".into(), J::s("inner")), ("type".into(), inner)]),
							]),
						),
					]),
					_ => J::Obj(vec![
						("type".into(), J::s("record")),
						("name".into(), J::s("Outer1")),
						(
							"fields".into(),
							J::Arr(vec![J::Obj(vec![
								("name".into(), J::s("mid")),
								(
									"type".into(),
									J::Obj(vec![
										("type".into(), J::s("record")),
										("name".into(), J::s("Outer2")),
										("fields".into(), J::Arr(vec![J::Obj(vec![("name".into(), J::s("inner")), ("type".into(), inner)])])),
									]),
								),
							])]),
						),
					]),
				};
			}
			class = "unconditional-cycle";
		}
	}
	let text = if rng.coin() { j.styled(rng) } else { j.compact() };
	// the reference resolver must agree that the document is invalid (guards the harness);
	// unconditional cycles are a semantic rule the resolver does not check
	if class != "unconditional-cycle" {
		if let Ok(doc) = crate::json::parse(&text) {
			if resolve(&doc).is_ok() {
				ctx.count("invalid_generator_produced_valid_document");
				return;
			}
		}
	}
	let r1 = text.parse::<SchemaMut>();
	let r2 = text.parse::<serde_avro_fast::Schema>();
	if r1.is_ok() || r2.is_ok() {
		ctx.violation(
			format!("invalid-document-accepted class={class}"),
			case_seed,
			json!({"document": text, "SchemaMut_ok": r1.is_ok(), "Schema_ok": r2.is_ok()}),
		);
		return;
	}
	ctx.count(&format!("invalid:{class}"));
	ctx.distinct_bytes(&[text.as_bytes()]);
	let _ = shape_hash;
}

#[allow(dead_code)]
pub fn debug_schema(case_seed: u64) {
	let mut rng = Rng::new(case_seed);
	let mut cfg = SchemaGenCfg::default();
	cfg.max_nodes = *rng.pick(&[1, 4, 10, 24, 40]);
	cfg.allow_big_fixed_decimal = true;
	let rs = gen_schema(&mut rng, &cfg);
	for (i, n) in rs.nodes.iter().enumerate() {
		println!("{i}: {n:?}");
	}
}
