//! C05 — container-file round trip for every codec, level, block size, flush pattern.
//! C06 — layout / interoperability (second half of this file).

use crate::bridge::present::Pres;
use crate::gen::schema::{gen_schema, shape_hash, SchemaGenCfg};
use crate::gen::value::ValueGen;
use crate::refavro::container::{self, Codec};
use crate::refavro::schema::*;
use crate::refavro::value::*;
use crate::rng::Rng;
use crate::run::{Ctx, PropSpec};
use crate::sut::*;
use crate::sutc::*;
use serde_json::json;

pub const SPEC: PropSpec = PropSpec {
	id: "C05",
	level: "exploration",
	rule: "half of the files are written to a sink that takes everything, the rest to one that accepts only part of each write (1, k, or random 1..64 bytes per call; with or without its own write_vectored). case = (schema: payload-oriented record/bytes shapes or random; 0..300 conforming values; codec in {null, deflate, bzip2, snappy, xz, zstandard}; level in {default, 1, max, above max}; approx_block_size in {0, 1, 7, 100, 8191..8193, 32767..32769, 65536, default, random}; op pattern over {serialize, serialize_all, finish_block (also empty / twice), push_serialized}; payload compressibility chosen so that compressed block length lands below / at / above the encoders' 32 KiB start buffer and its doublings and decompressed length on multiples of 8 KiB); the file is read back from a slice, BufReader capacities {1, 2, 7, 64, 8191, 8192, 8193, ...} or an irregular chunked reader: exactly the written values in order, then end of stream (twice). distinct by hash(schema shape, file bytes, reader kind)",
	assumptions: &["the sync marker is fixed through the builder so that runs are reproducible"],
	cases: (50_000_000, 4_000_000_000),
	secs: (45, 900),
	required: &[
		"roundtrip_ok",
		"codec:null",
		"codec:deflate",
		"codec:bzip2",
		"codec:snappy",
		"codec:xz",
		"codec:zstandard",
		"compressed_block_over_32KiB",
		"compressed_block_over_64KiB",
		"decompressed_block_multiple_of_8KiB",
		"files_written_to_short_writing_sink",
	],
	run_case,
	once: None,
	panics_are_violations: true,
	cpu_kill_secs: 120,
	max_workers: 16,
};

fn p(k: Kind) -> Node {
	Node { kind: k, logical: None }
}

/// (schema, values) biased to control block sizes
pub fn payload_case(rng: &mut Rng) -> (RSchema, Vec<Val>, &'static str) {
	match rng.below(8) {
		7 => {
			// long collections inside one value: arrays / maps of 999..5000 items (the header's metadata map is limited to
			// 1000 entries; values are not), in one or several blocks
			let rs = RSchema {
				nodes: vec![
					p(Kind::Record {
						name: "Long".into(),
						fields: vec![("xs".into(), 1), ("m".into(), 3), ("tail".into(), 2)],
					}),
					p(Kind::Array(2)),
					p(Kind::Long),
					p(Kind::Map(2)),
				],
			};
			let n = 1 + rng.below(3);
			let vals = (0..n)
				.map(|_| {
					let na = *rng.pick(&[0usize, 999, 1000, 1001, 2500, 5000]);
					let nm = *rng.pick(&[0usize, 3, 1000, 1001, 1500]);
					Val::Record(vec![
						Val::Array((0..na).map(|i| Val::Long(i as i64 - 7)).collect()),
						Val::Map((0..nm).map(|i| (format!("k{i}"), Val::Long(i as i64))).collect()),
						Val::Long(ValueGen::interesting_i64(rng)),
					])
				})
				.collect();
			(rs, vals, "long-collections")
		}
		0 => {
			// single bytes schema, exact encoded sizes
			let rs = RSchema { nodes: vec![p(Kind::Bytes)] };
			let target = *rng.pick(&[8192usize, 16384, 8191, 8193, 24576, 32768, 65536, 40000, 100_000]);
			let compressible = rng.coin();
			let n = 1 + rng.below(3);
			let mut vals = Vec::new();
			for _ in 0..n {
				// encoded size = varint(len) + len == target
				let mut len = target.saturating_sub(1);
				for _ in 0..4 {
					let mut t = Vec::new();
					put_long(len as i64, &mut t);
					if t.len() + len > target {
						len -= t.len() + len - target;
					} else {
						break;
					}
				}
				let b = if compressible {
					vec![b'x'; len]
				} else {
					rng.bytes(len)
				};
				vals.push(Val::Bytes(b));
			}
			(rs, vals, "exact-size-bytes")
		}
		1 => {
			// incompressible records around the 32 KiB / 64 KiB / 128 KiB compressed sizes
			let rs = RSchema {
				nodes: vec![
					p(Kind::Record {
						name: "Rec".into(),
						fields: vec![("id".into(), 1), ("payload".into(), 2), ("name".into(), 3)],
					}),
					p(Kind::Long),
					p(Kind::Bytes),
					p(Kind::String),
				],
			};
			let total = *rng.pick(&[30_000usize, 32_700, 32_768, 33_000, 65_000, 66_000, 131_000, 140_000, 300_000]);
			let n = 1 + rng.below(12);
			let each = total / n;
			let vals = (0..n)
				.map(|i| Val::Record(vec![Val::Long(i as i64), Val::Bytes(rng.bytes(each)), Val::Str(format!("n{i}"))]))
				.collect();
			(rs, vals, "incompressible-records")
		}
		2 => {
			// many small values
			let rs = RSchema {
				nodes: vec![
					p(Kind::Record {
						name: "a.Small".into(),
						fields: vec![("a".into(), 1), ("b".into(), 2)],
					}),
					p(Kind::Long),
					p(Kind::String),
				],
			};
			let n = rng.below(300);
			let vals = (0..n)
				.map(|i| Val::Record(vec![Val::Long(ValueGen::interesting_i64(rng)), Val::Str(format!("value-{i}"))]))
				.collect();
			(rs, vals, "many-small")
		}
		5 => {
			// blocks of growing size, alternating compressible / incompressible: every block's
			// compressed form is larger than what any earlier block needed
			let rs = RSchema { nodes: vec![p(Kind::Bytes)] };
			let n = 2 + rng.below(10);
			let mut size = *rng.pick(&[200usize, 5_000, 40_000, 60_000]);
			let mut vals = Vec::new();
			for i in 0..n {
				let b = if i == 0 && rng.coin() { vec![0u8; size] } else { rng.bytes(size) };
				vals.push(Val::Bytes(b));
				size += 1 + rng.below(size / 8 + 16);
			}
			(rs, vals, "growing-incompressible")
		}
		3 => {
			// highly compressible large values (decompressed >> compressed)
			let rs = RSchema { nodes: vec![p(Kind::String)] };
			let n = 1 + rng.below(6);
			let vals = (0..n)
				.map(|_| {
					let len = *rng.pick(&[8190usize, 20_000, 65_534, 200_000, 1_000_000]);
					Val::Str("ab".repeat(len / 2))
				})
				.collect();
			(rs, vals, "compressible-large")
		}
		_ => {
			let mut cfg = SchemaGenCfg::default();
			cfg.max_nodes = *rng.pick(&[1, 6, 16]);
			let rs = gen_schema(rng, &cfg);
			let n = *rng.pick(&[0usize, 1, 2, 5, 30, 120]);
			let mut vals = Vec::new();
			for _ in 0..n {
				let mut vg = ValueGen::new(&rs);
				vg.budget = 30;
				vals.push(vg.gen(rng));
			}
			(rs, vals, "random-schema")
		}
	}
}

pub fn pick_write_cfg(rng: &mut Rng) -> WriteCfg {
	let codec = *rng.pick(&Codec::ALL);
	WriteCfg {
		codec,
		level: *rng.pick(&[None, None, Some(1), Some(9), Some(22), Some(200), Some(3)]),
		approx_block_size: *rng.pick(&[
			None,
			None,
			Some(0),
			Some(1),
			Some(7),
			Some(100),
			Some(8191),
			Some(8192),
			Some(8193),
			Some(32767),
			Some(32768),
			Some(32769),
			Some(65536),
			Some(1_000_000),
		]),
		sync: *b"0123456789abcdef",
		user_meta: vec![],
		sink_schedule: None,
	}
}

/// sink behaviour for files written by C05 / C06: mostly a sink that takes everything, sometimes one that takes
/// only part of each write (what must not change a single byte of the file)
pub fn pick_sink_schedule(rng: &mut Rng) -> Option<(Vec<usize>, bool)> {
	match rng.below(6) {
		0 => Some((vec![1], rng.coin())),
		1 => Some((vec![*rng.pick(&[2usize, 3, 7, 17, 4096])], rng.coin())),
		2 => Some(((0..1 + rng.below(8)).map(|_| 1 + rng.below(64)).collect(), rng.coin())),
		_ => None,
	}
}

pub fn run_case(ctx: &mut Ctx, case_seed: u64) {
	let mut rng = Rng::new(case_seed);
	let (rs, vals, shape) = payload_case(&mut rng);
	let (schema, _) = make_schema(&rs, pick_via(&mut rng), &mut rng);
	let schema = match schema {
		Ok(s) => s,
		Err(e) => {
			ctx.violation(format!("schema-rejected {}", err_sig(&e)), case_seed, json!({"schema": rs.spell(None).compact(), "error": e}));
			return;
		}
	};
	let mut wc = pick_write_cfg(&mut rng);
	wc.sink_schedule = pick_sink_schedule(&mut rng);
	if wc.sink_schedule.is_some() {
		ctx.count("files_written_to_short_writing_sink");
	}
	if let Some(a) = &mut wc.approx_block_size {
		if rng.chance(1, 6) {
			*a = rng.below(70_000) as u32;
		}
	}
	let ops = op_pattern(&mut rng, vals.len());
	let pres = Pres::canonical();
	let describe = |extra: serde_json::Value| {
		json!({"schema": rs.spell(None).compact(), "payload_shape": shape, "n_values": vals.len(), "codec": wc.codec.name(), "level": wc.level, "approx_block_size": wc.approx_block_size, "sink_schedule": format!("{:?}", wc.sink_schedule),
			"ops": format!("{ops:?}").chars().take(600).collect::<String>(), "first_value": vals.first().map(|v| v.to_json()), "extra": extra})
	};
	let file = match write_file(&schema, &rs, &vals, &ops, &wc, &pres) {
		Ok(f) => f,
		Err(e) => {
			ctx.violation(format!("write-failed codec={} {}", wc.codec.name(), err_sig(&e)), case_seed, describe(json!({"error": e})));
			return;
		}
	};
	ctx.count(&format!("codec:{}", wc.codec.name()));
	// structure seen by the reference parser (for the evidence counters and the independent oracle)
	match container::parse(&file) {
		Ok(ocf) => {
			for b in &ocf.blocks {
				if wc.codec != Codec::Null {
					if b.size > 32 * 1024 {
						ctx.count("compressed_block_over_32KiB");
					}
					if b.size > 64 * 1024 {
						ctx.count("compressed_block_over_64KiB");
					}
					if !b.raw.is_empty() && b.raw.len() % 8192 == 0 {
						ctx.count("decompressed_block_multiple_of_8KiB");
					}
				}
				ctx.max("block_raw_len", b.raw.len() as u64);
			}
			ctx.max("blocks_in_file", ocf.blocks.len() as u64);
			match container::decode_values(&ocf, &rs) {
				Ok(got) if got == vals => {}
				other => {
					ctx.violation(
						format!("file-not-readable-by-reference codec={}", wc.codec.name()),
						case_seed,
						describe(json!({"file_len": file.len(), "reference": format!("{:?}", other.map(|v| v.len())).chars().take(300).collect::<String>()})),
					);
					return;
				}
			}
		}
		Err((m, _)) => {
			ctx.violation(
				format!("file-not-parseable-by-reference codec={} {}", wc.codec.name(), err_sig(&m)),
				case_seed,
				describe(json!({"file_len": file.len(), "reference_parser": m, "file_head": hex(&file[..file.len().min(300)])})),
			);
			return;
		}
	}
	// read back with the crate, two reader kinds
	for _ in 0..2 {
		let kind = pick_reader_kind(&mut rng, file.len());
		let mo = ModeOwned::random(&mut rng);
		let r = read_file(&file, &rs, &kind, &mo, vals.len() + 4);
		let kind_name = match &kind {
			ReaderKind::Slice => "slice".to_string(),
			ReaderKind::BufReader(c) => format!("bufreader({c})"),
			ReaderKind::Chunked(_) => "chunked".to_string(),
		};
		match r {
			Err(e) => {
				ctx.violation(
					format!("reader-init-failed codec={} {}", wc.codec.name(), err_sig(&e)),
					case_seed,
					describe(json!({"reader": format!("{kind:?}"), "error": e})),
				);
				return;
			}
			Ok((items, _)) => {
				let mut want: Vec<Item> = vals.iter().cloned().map(Item::Val).collect();
				want.push(Item::End);
				want.push(Item::End);
				if items != want {
					let first_bad = items.iter().zip(&want).position(|(a, b)| a != b).unwrap_or(items.len().min(want.len()));
					let what = match items.get(first_bad) {
						Some(Item::Err(e)) => format!("error {}", err_sig(e)),
						Some(Item::End) => "premature-end".into(),
						Some(Item::Val(_)) => "wrong-or-extra-value".into(),
						None => "missing-items".into(),
					};
					ctx.violation(
						format!("readback-differs codec={} reader={} {what}", wc.codec.name(), kind_name.split('(').next().unwrap()),
						case_seed,
						describe(json!({"reader": format!("{kind:?}"), "first_difference_at": first_bad, "got": format!("{:?}", items.get(first_bad)).chars().take(300).collect::<String>(), "file_len": file.len()})),
					);
					return;
				}
				ctx.count(&format!("reader:{}", kind_name.split('(').next().unwrap()));
			}
		}
	}
	ctx.count("roundtrip_ok");
	ctx.distinct_bytes(&[&shape_hash(&rs).to_le_bytes(), &crate::rng::fnv(&file).to_le_bytes(), format!("{ops:?}").as_bytes()]);
	ctx.sample(|| describe(json!({"file_len": file.len()})));
}
