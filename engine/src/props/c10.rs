//! C10 — no undefined behaviour from the self-referential schema / reader in any history.
//! Driver: runs the c10trace API-trace interpreter under Miri (Stacked Borrows; Tree Borrows and
//! more schedules in thorough), AddressSanitizer and ThreadSanitizer (all codecs) and, in thorough,
//! valgrind memcheck.

use crate::run::{finish, Report, Violation, VERIF};
use serde_json::{json, Value};
use std::collections::BTreeMap;
use std::process::{Command, Stdio};
use std::time::Instant;

const RULE: &str = "case = one API trace (12-16 operations) drawn from {parse text (plain / fancy spelling), build graph through the node API, edit through nodes_mut, freeze ok, freeze on each error exit (empty graph, dangling key reachable from the root, dangling key in an orphan node after earlier nodes were initialised, unnamed cycle, JSON error), move the schema (Box, Vec that reallocates, Arc, swap), serialize + owned decode, borrowed decode whose result outlives the schema, container Reader over slice / BufReader(1..9) / chunked reader for null, deflate, snappy (+ bzip2, xz, zstandard outside Miri) reading n values, moving the reader in the middle of a block (out of a Box that is freed, through a reallocating Vec, swapped with another mid-block reader) and reading on, the same inside a block larger than the reader's internal 8 KiB buffer so that the block's decompressor is still live when the reader moves, a source that panics at some call (panic caught, reader used again, then dropped), values borrowed from container blocks (null / deflate / snappy) kept across blocks and past the reader, cloning reader.schema() and dropping reader / handle in both orders and using the handle afterwards, Debug formatting, two scoped threads using &Schema / Arc<Schema> concurrently with results compared to the sequential ones, three threads making the very FIRST use of a freshly frozen schema concurrently, dropping everything in random order}; every trace runs under Miri (UB + data-race interpreter), under AddressSanitizer and under ThreadSanitizer (std rebuilt with the sanitizer, all six codecs); distinct = distinct trace seeds executed, non-trivial = every trace (each performs at least parse/build + drop)";

struct Stage {
	name: &'static str,
	traces: u64,
	ops: BTreeMap<String, u64>,
	bigrams: u64,
	procs: u64,
}

fn parse_summary(out: &str, st: &mut Stage) -> Vec<String> {
	let mut mism = vec![];
	for l in out.lines() {
		if let Some(s) = l.strip_prefix("SUMMARY ") {
			if let Ok(v) = serde_json::from_str::<Value>(s) {
				st.traces += v["traces"].as_u64().unwrap_or(0);
				st.bigrams = st.bigrams.max(v["distinct_bigrams"].as_u64().unwrap_or(0));
				if let Some(o) = v["ops"].as_object() {
					for (k, n) in o {
						*st.ops.entry(k.clone()).or_insert(0) += n.as_u64().unwrap_or(0);
					}
				}
				if let Some(m) = v["mismatches"].as_array() {
					for x in m {
						mism.push(x.as_str().unwrap_or("").to_owned());
					}
				}
			}
		}
	}
	mism
}

fn last_trace(out: &str) -> u64 {
	out.lines()
		.rev()
		.find_map(|l| l.strip_prefix("TRACE ").and_then(|s| s.trim().parse().ok()))
		.unwrap_or(0)
}

/// first line naming the kind of report + first frame inside the repository
fn report_signature(stderr: &str) -> String {
	let kind = stderr
		.lines()
		.find(|l| l.contains("Undefined Behavior") || l.contains("ERROR: AddressSanitizer") || l.contains("WARNING: ThreadSanitizer") || l.contains("Data race") || l.starts_with("error:") || l.contains("Invalid read") || l.contains("Invalid write") || l.contains("uninitialised"))
		.unwrap_or("abnormal exit")
		.trim();
	// addresses, pids and counts out: the signature names the kind of report only
	let kind: String = kind
		.split_whitespace()
		.map(|w| {
			if w.starts_with("0x") || w.starts_with("(pid=") || w.starts_with("==") {
				"#".to_owned()
			} else {
				w.chars().map(|c| if c.is_ascii_digit() { '#' } else { c }).collect::<String>()
			}
		})
		.collect::<Vec<_>>()
		.join(" ")
		.chars()
		.take(90)
		.collect();
	// only the part of the output that follows the report itself (compiler warnings precede it)
	let after: Vec<&str> = stderr
		.lines()
		.skip_while(|l| !(l.contains("Undefined Behavior") || l.contains("ERROR: AddressSanitizer") || l.contains("WARNING: ThreadSanitizer") || l.contains("Data race") || l.contains("Invalid read") || l.contains("Invalid write") || l.contains("uninitialised")))
		.collect();
	let frame = after
		.iter()
		.find(|l| l.contains("serde_avro_fast/src/") || l.contains("serde_avro_fast::"))
		.map(|l| {
			let l = l.trim();
			if l.contains("serde_avro_fast/src/") {
				let f = l.rsplit("serde_avro_fast/src/").next().unwrap_or(l);
				f.split(':').next().unwrap_or(f).to_owned()
			} else {
				// a symbol: keep the path up to the first generic argument
				let f = l.split("serde_avro_fast::").nth(1).unwrap_or(l);
				format!("serde_avro_fast::{}", f.split(|c| c == '<' || c == ' ' || c == '(').next().unwrap_or(f))
			}
		})
		.unwrap_or_else(|| "no-frame-in-repo".into());
	format!("{kind} at {frame}")
}

/// Wait for all children while reading their pipes concurrently (a child that fills its stdout pipe would otherwise
/// sit blocked until its turn comes, serialising the stage)
fn drain(children: Vec<(u64, std::io::Result<std::process::Child>)>) -> Vec<(u64, std::io::Result<std::process::Output>)> {
	// A child that makes no progress (a process wedged inside a sanitizer runtime after the code under test corrupted
	// its own state, say) is killed after a generous wall-clock limit; its output then lacks a SUMMARY line and its exit
	// status is a signal, which the stages count as inconclusive unless a sanitizer report is present.
	let limit = std::time::Duration::from_secs(if std::env::var("VERIF_C10_CHILD_LIMIT_S").is_ok() { std::env::var("VERIF_C10_CHILD_LIMIT_S").ok().and_then(|v| v.parse().ok()).unwrap_or(1500) } else { 1500 });
	let start = std::time::Instant::now();
	let pids: std::sync::Arc<std::sync::Mutex<Vec<(u32, bool)>>> = Default::default();
	let handles: Vec<_> = children
		.into_iter()
		.map(|(p, ch)| {
			let pids2 = pids.clone();
			let slot = ch.as_ref().ok().map(|c| c.id());
			let idx = {
				let mut g = pids.lock().unwrap();
				g.push((slot.unwrap_or(0), false));
				g.len() - 1
			};
			(
				p,
				std::thread::spawn(move || {
					let r = ch.and_then(|c| c.wait_with_output());
					pids2.lock().unwrap()[idx].1 = true;
					r
				}),
			)
		})
		.collect();
	// watchdog
	let pids3 = pids.clone();
	let watchdog = std::thread::spawn(move || loop {
		std::thread::sleep(std::time::Duration::from_secs(2));
		let g = pids3.lock().unwrap();
		if g.iter().all(|x| x.1) {
			return;
		}
		if start.elapsed() > limit {
			for (pid, done) in g.iter() {
				if !*done && *pid != 0 {
					eprintln!("child {pid} still running after {:.0}s: killed (inconclusive)", start.elapsed().as_secs_f64());
					unsafe {
						libc::kill(*pid as i32, libc::SIGKILL);
					}
				}
			}
			return;
		}
	});
	let out = handles
		.into_iter()
		.map(|(p, h)| (p, h.join().unwrap_or_else(|_| Err(std::io::Error::new(std::io::ErrorKind::Other, "collector thread died")))))
		.collect();
	let _ = watchdog.join();
	out
}

pub fn run(thorough: bool, seed: u64) -> i32 {
	if std::env::var("VERIF_C10_CHILD_LIMIT_S").is_err() {
		// the longest stage of a clean run takes ~3 min (quick) / ~30 min (thorough)
		std::env::set_var("VERIF_C10_CHILD_LIMIT_S", if thorough { "3600" } else { "600" });
	}
	let t0 = Instant::now();
	let dir = format!("{VERIF}/c10trace");
	let _ = std::fs::copy(format!("{VERIF}/engine/Cargo.lock"), format!("{dir}/Cargo.lock"));
	let mut violations: Vec<Violation> = Vec::new();
	let mut counters: BTreeMap<String, u64> = BTreeMap::new();
	let mut inconclusive = 0u64;
	let mut stages: Vec<Stage> = Vec::new();
	let ops_per_trace = 14u64;
	let nproc = 16u64;
	let _ = std::fs::create_dir_all(format!("{VERIF}/replays"));

	// ---------------------------------------------------------------- Miri
	let miri_flag_sets: Vec<(&'static str, String, u64)> = if thorough {
		vec![
			("miri-stacked-borrows", "-Zmiri-ignore-leaks".into(), 90),
			("miri-tree-borrows", "-Zmiri-ignore-leaks -Zmiri-tree-borrows".into(), 50),
			("miri-many-seeds", "-Zmiri-ignore-leaks -Zmiri-many-seeds=0..16".into(), 3),
		]
	} else {
		vec![
			("miri-stacked-borrows", "-Zmiri-ignore-leaks".into(), 8),
			("miri-many-seeds", "-Zmiri-ignore-leaks -Zmiri-many-seeds=0..4".into(), 1),
		]
	};
	// build once
	let b = Command::new("cargo")
		.args(["+nightly", "miri", "run", "--offline", "-q", "--", "0", "0", "1"])
		.current_dir(&dir)
		.env("CARGO_TARGET_DIR", format!("{VERIF}/target/c10miri"))
		.env("MIRIFLAGS", "-Zmiri-ignore-leaks")
		.env_remove("RUSTFLAGS")
		.output();
	match b {
		Ok(o) if o.status.success() => {}
		other => {
			eprintln!("HARNESS-ERROR: c10trace does not build/run under Miri: {:?}", other.map(|o| String::from_utf8_lossy(&o.stderr).chars().take(2000).collect::<String>()));
			return 2;
		}
	}
	for (si, (name, flags, ntraces)) in miri_flag_sets.iter().enumerate() {
		let mut st = Stage {
			name,
			traces: 0,
			ops: BTreeMap::new(),
			bigrams: 0,
			procs: 0,
		};
		let children: Vec<_> = (0..nproc)
			.map(|p| {
				let pseed = crate::rng::mix(&[seed, si as u64, p]);
				(
					pseed,
					Command::new("cargo")
						.args(["+nightly", "miri", "run", "--offline", "-q", "--"])
						.arg(pseed.to_string())
						.arg(ntraces.to_string())
						.arg(ops_per_trace.to_string())
						.current_dir(&dir)
						.env("CARGO_TARGET_DIR", format!("{VERIF}/target/c10miri"))
						.env("MIRIFLAGS", flags)
						.env_remove("RUSTFLAGS")
						.stdout(Stdio::piped())
						.stderr(Stdio::piped())
						.spawn(),
				)
			})
			.collect();
		let stage_t0 = Instant::now();
		for (pseed, ch) in drain(children) {
			let out = match ch {
				Ok(o) => o,
				Err(_) => {
					inconclusive += 1;
					continue;
				}
			};
			eprintln!("{name}: process {pseed} done at +{:.0}s", stage_t0.elapsed().as_secs_f64());
			st.procs += 1;
			let so = String::from_utf8_lossy(&out.stdout).into_owned();
			let se = String::from_utf8_lossy(&out.stderr).into_owned();
			let mism = parse_summary(&so, &mut st);
			for m in mism {
				violations.push(Violation {
					signature: format!("result-mismatch {}", m.chars().take(40).collect::<String>()),
					case_seed: pseed,
					detail: json!({"stage": name, "process_seed": pseed.to_string(), "mismatch": m}),
				});
			}
			if !out.status.success() && out.status.code() != Some(3) {
				let tseed = last_trace(&so);
				let is_report = se.contains("Undefined Behavior") || se.contains("Data race") || se.contains("error: ");
				if is_report {
					let log = format!("{VERIF}/replays/C10-{name}-{tseed}.log");
					let _ = std::fs::write(&log, &se);
					violations.push(Violation {
						signature: format!("{name}: {}", report_signature(&se)),
						case_seed: tseed,
						detail: json!({"stage": name, "trace_seed": tseed.to_string(), "replay": format!("cd {dir} && MIRIFLAGS='{flags}' cargo +nightly miri run --offline -- --trace {tseed} {ops_per_trace}"), "report_log": log,
							"report_head": se.lines().filter(|l| !l.trim().is_empty()).take(14).collect::<Vec<_>>()}),
					});
				} else {
					inconclusive += 1;
					eprintln!("{name}: process {pseed} exited {:?} without a sanitizer report: inconclusive", out.status.code());
				}
			}
		}
		stages.push(st);
	}

	eprintln!("stage boundary: miri done at +{:.0}s", t0.elapsed().as_secs_f64());
	// ---------------------------------------------------------------- AddressSanitizer (all codecs)
	let asan_build = Command::new("cargo")
		.args(["+nightly", "build", "--offline", "-q", "--target", "x86_64-unknown-linux-gnu", "--features", "ffi_codecs"])
		.current_dir(&dir)
		.env("CARGO_TARGET_DIR", format!("{VERIF}/target/c10asan"))
		.env("RUSTFLAGS", "-Zsanitizer=address -Cforce-frame-pointers=yes")
		.output();
	match asan_build {
		Ok(o) if o.status.success() => {
			let mut st = Stage {
				name: "asan",
				traces: 0,
				ops: BTreeMap::new(),
				bigrams: 0,
				procs: 0,
			};
			let ntr = if thorough { 40_000 } else { 4_000 };
			let children: Vec<_> = (0..nproc)
				.map(|p| {
					let pseed = crate::rng::mix(&[seed, 77, p]);
					(
						pseed,
						Command::new(format!("{VERIF}/target/c10asan/x86_64-unknown-linux-gnu/debug/c10trace"))
							.arg(pseed.to_string())
							.arg(ntr.to_string())
							.arg(ops_per_trace.to_string())
							.env("ASAN_OPTIONS", "detect_leaks=0:halt_on_error=1:abort_on_error=0")
							.stdout(Stdio::piped())
							.stderr(Stdio::piped())
							.spawn(),
					)
				})
				.collect();
			for (pseed, ch) in drain(children) {
				let out = match ch {
					Ok(o) => o,
					Err(_) => {
						inconclusive += 1;
						continue;
					}
				};
				st.procs += 1;
				let so = String::from_utf8_lossy(&out.stdout).into_owned();
				let se = String::from_utf8_lossy(&out.stderr).into_owned();
				for m in parse_summary(&so, &mut st) {
					violations.push(Violation {
						signature: format!("result-mismatch {}", m.chars().take(40).collect::<String>()),
						case_seed: pseed,
						detail: json!({"stage": "asan", "mismatch": m}),
					});
				}
				if !out.status.success() && out.status.code() != Some(3) {
					let tseed = last_trace(&so);
					let log = format!("{VERIF}/replays/C10-asan-{tseed}.log");
					let _ = std::fs::write(&log, &se);
					violations.push(Violation {
						signature: format!("asan: {}", report_signature(&se)),
						case_seed: tseed,
						detail: json!({"stage": "asan", "trace_seed": tseed.to_string(), "replay": format!("{VERIF}/target/c10asan/x86_64-unknown-linux-gnu/debug/c10trace --trace {tseed} {ops_per_trace}"), "report_log": log,
							"report_head": se.lines().filter(|l| !l.trim().is_empty()).take(14).collect::<Vec<_>>()}),
					});
				}
			}
			stages.push(st);
		}
		other => {
			eprintln!("asan stage unavailable (counted inconclusive): {:?}", other.map(|o| String::from_utf8_lossy(&o.stderr).chars().take(600).collect::<String>()));
			inconclusive += 1;
		}
	}

	eprintln!("stage boundary: asan done at +{:.0}s", t0.elapsed().as_secs_f64());
	// ---------------------------------------------------------------- ThreadSanitizer (all codecs; std rebuilt with the sanitizer)
	let tsan_build = Command::new("cargo")
		.args(["+nightly", "build", "--offline", "-q", "-Zbuild-std", "--target", "x86_64-unknown-linux-gnu", "--features", "ffi_codecs"])
		.current_dir(&dir)
		.env("CARGO_TARGET_DIR", format!("{VERIF}/target/c10tsan"))
		.env("RUSTFLAGS", "-Zsanitizer=thread")
		.output();
	match tsan_build {
		Ok(o) if o.status.success() => {
			let mut st = Stage {
				name: "tsan",
				traces: 0,
				ops: BTreeMap::new(),
				bigrams: 0,
				procs: 0,
			};
			let ntr = if thorough { 20_000 } else { 2_000 };
			let children: Vec<_> = (0..nproc)
				.map(|p| {
					let pseed = crate::rng::mix(&[seed, 78, p]);
					(
						pseed,
						Command::new(format!("{VERIF}/target/c10tsan/x86_64-unknown-linux-gnu/debug/c10trace"))
							.arg(pseed.to_string())
							.arg(ntr.to_string())
							.arg(ops_per_trace.to_string())
							.env("TSAN_OPTIONS", "halt_on_error=1:second_deadlock_stack=1")
							.stdout(Stdio::piped())
							.stderr(Stdio::piped())
							.spawn(),
					)
				})
				.collect();
			for (pseed, ch) in drain(children) {
				let out = match ch {
					Ok(o) => o,
					Err(_) => {
						inconclusive += 1;
						continue;
					}
				};
				st.procs += 1;
				let so = String::from_utf8_lossy(&out.stdout).into_owned();
				let se = String::from_utf8_lossy(&out.stderr).into_owned();
				for m in parse_summary(&so, &mut st) {
					violations.push(Violation {
						signature: format!("result-mismatch {}", m.chars().take(40).collect::<String>()),
						case_seed: pseed,
						detail: json!({"stage": "tsan", "mismatch": m}),
					});
				}
				if !out.status.success() && out.status.code() != Some(3) {
					let tseed = last_trace(&so);
					let log = format!("{VERIF}/replays/C10-tsan-{tseed}.log");
					let _ = std::fs::write(&log, &se);
					violations.push(Violation {
						signature: format!("tsan: {}", report_signature(&se)),
						case_seed: tseed,
						detail: json!({"stage": "tsan", "trace_seed": tseed.to_string(), "replay": format!("{VERIF}/target/c10tsan/x86_64-unknown-linux-gnu/debug/c10trace --trace {tseed} {ops_per_trace}"), "report_log": log,
							"report_head": se.lines().filter(|l| !l.trim().is_empty()).take(14).collect::<Vec<_>>()}),
					});
				}
			}
			stages.push(st);
		}
		other => {
			eprintln!("tsan stage unavailable (counted inconclusive): {:?}", other.map(|o| String::from_utf8_lossy(&o.stderr).chars().take(600).collect::<String>()));
			inconclusive += 1;
		}
	}

	eprintln!("stage boundary: tsan done at +{:.0}s", t0.elapsed().as_secs_f64());
	// ---------------------------------------------------------------- valgrind memcheck (thorough)
	if thorough {
		let vb = Command::new("cargo")
			.args(["build", "--offline", "-q", "--features", "ffi_codecs"])
			.current_dir(&dir)
			.env("CARGO_TARGET_DIR", format!("{VERIF}/target/c10"))
			.env_remove("RUSTFLAGS")
			.output();
		if matches!(&vb, Ok(o) if o.status.success()) {
			let mut st = Stage {
				name: "valgrind-memcheck",
				traces: 0,
				ops: BTreeMap::new(),
				bigrams: 0,
				procs: 0,
			};
			let children: Vec<_> = (0..nproc)
				.map(|p| {
					let pseed = crate::rng::mix(&[seed, 99, p]);
					(
						pseed,
						Command::new("valgrind")
							.args(["-q", "--error-exitcode=9", "--leak-check=no"])
							.arg(format!("{VERIF}/target/c10/debug/c10trace"))
							.arg(pseed.to_string())
							.arg("120")
							.arg(ops_per_trace.to_string())
							.stdout(Stdio::piped())
							.stderr(Stdio::piped())
							.spawn(),
					)
				})
				.collect();
			for (pseed, ch) in drain(children) {
				if let Ok(out) = ch {
					st.procs += 1;
					let so = String::from_utf8_lossy(&out.stdout).into_owned();
					let se = String::from_utf8_lossy(&out.stderr).into_owned();
					let _ = parse_summary(&so, &mut st);
					if out.status.code() == Some(9) {
						let tseed = last_trace(&so);
						violations.push(Violation {
							signature: format!("valgrind: {}", report_signature(&se)),
							case_seed: tseed,
							detail: json!({"stage": "valgrind", "process_seed": pseed.to_string(), "report_head": se.lines().take(20).collect::<Vec<_>>()}),
						});
					}
				}
			}
			stages.push(st);
		}
	}

	let mut evaluations = 0;
	let mut samples = Vec::new();
	for st in &stages {
		evaluations += st.traces;
		counters.insert(format!("traces:{}", st.name), st.traces);
		counters.insert(format!("processes:{}", st.name), st.procs);
		counters.insert(format!("max:distinct_op_bigrams:{}", st.name), st.bigrams);
		for (k, n) in &st.ops {
			*counters.entry(format!("op:{k}")).or_insert(0) += n;
			*counters.entry(format!("{}:op:{k}", st.name)).or_insert(0) += n;
		}
	}
	samples.push(json!({"a trace is": "c10trace --trace <seed> 14", "stages": stages.iter().map(|s| json!({"stage": s.name, "traces": s.traces, "ops": s.ops})).collect::<Vec<_>>()}));
	finish(Report {
		id: "C10",
		level: "exploration",
		rule: RULE,
		assumptions: &[
			"Miri cannot cross the C FFI of bzip2 / xz / zstandard: those codecs are covered by AddressSanitizer and valgrind only (which miss non-adjacent overflows and uninitialised reads / some UB)",
			"thread interleavings are sampled (Miri seeds), not enumerated; the shared state is immutable after freeze",
			"leaks are not UB and are ignored (-Zmiri-ignore-leaks, detect_leaks=0): the harness itself interns names",
		],
		required: &[
			"traces:miri-stacked-borrows",
			"traces:asan",
			"miri-stacked-borrows:op:threads",
			"miri-stacked-borrows:op:threads-first-use",
			"miri-stacked-borrows:op:freeze-err:dangling-orphan",
			"miri-stacked-borrows:op:freeze-err:dangling-reachable",
			"miri-stacked-borrows:op:borrowed-decode-outlives-schema",
			"miri-stacked-borrows:op:reader:snappy",
			"miri-stacked-borrows:op:move",
			"asan:op:reader:zstandard",
			"asan:op:reader-moved-mid-block:zstandard",
			"asan:op:reader-moved-in-big-block:zstandard",
			"asan:op:reader-moved-in-big-block:xz",
			"asan:op:reader-source-panicked",
			"asan:op:borrowed-from-container:null",
			"miri-stacked-borrows:op:reader-source-panicked",
			"miri-stacked-borrows:op:reader-moved-mid-block:deflate",
			"traces:tsan",
			"tsan:op:threads-first-use",
			"tsan:op:reader:zstandard",
		],
		thorough,
		seed,
		evaluations,
		distinct: evaluations as usize,
		counters,
		samples,
		violations,
		inconclusive,
		inconclusive_workers: 0,
		nworkers: nproc as usize,
		wall: t0.elapsed().as_secs_f64(),
		extra: None,
	})
}
