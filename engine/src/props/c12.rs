//! C12 — skipping a value consumes exactly the bytes that reading it would.

use crate::bridge::collect::erase;
use crate::gen::schema::{gen_schema, shape_hash, SchemaGenCfg};
use crate::gen::value::ValueGen;
use crate::io::schedule;
use crate::refavro::schema::*;
use crate::refavro::value::*;
use crate::rng::Rng;
use crate::run::{Ctx, PropSpec};
use crate::sut::*;
use serde_json::json;
use std::collections::HashSet;

pub const SPEC: PropSpec = PropSpec {
	id: "C12",
	level: "exploration",
	rule: "case = random schema S embedded as record{pre, x:S, sentinel, tail} / record{arr:array<S>, m:map<S>, sentinel} / record{u:[null,S], sentinel}; a conforming value is encoded by the reference with a random block layout (negative-count blocks carry byte sizes); a random set of sub-trees (single nodes, whole arrays/maps, S itself, the union payload read as unit variant) is ignored through serde's IgnoredAny; the result must equal the expected value with those sub-trees erased, and exactly the encoding must be consumed (marker bytes follow); slice and chunked reader; distinct by hash(schema shape, bytes, ignore set)",
	assumptions: &["valid encodings only (a wrong advertised byte size belongs to C03/C04)"],
	cases: (50_000_000, 4_000_000_000),
	secs: (30, 600),
	required: &["skip_ok", "ignored_collection_with_sized_blocks", "unit_variant_payload_skipped", "reader_skip_ok"],
	run_case,
	once: None,
	panics_are_violations: true,
	cpu_kill_secs: 60,
	max_workers: 16,
};

fn shift(n: &Node, off: usize) -> Node {
	let kind = match &n.kind {
		Kind::Array(i) => Kind::Array(i + off),
		Kind::Map(i) => Kind::Map(i + off),
		Kind::Union(v) => Kind::Union(v.iter().map(|i| i + off).collect()),
		Kind::Record { name, fields } => Kind::Record {
			name: name.clone(),
			fields: fields.iter().map(|(f, i)| (f.clone(), i + off)).collect(),
		},
		k => k.clone(),
	};
	Node {
		kind,
		logical: n.logical.clone(),
	}
}

fn prim(k: Kind) -> Node {
	Node { kind: k, logical: None }
}

/// returns (wrapped schema, id of S's root inside it, id of the wrapper union if any)
pub fn wrap(s: &RSchema, form: usize) -> (RSchema, Id, Option<Id>) {
	let mut nodes: Vec<Node>;
	let off;
	let mut union_id = None;
	match form {
		0 => {
			off = 4;
			nodes = vec![
				prim(Kind::Record {
					name: "zz.Wrap".into(),
					fields: vec![
						("pre".into(), 1),
						("x".into(), off),
						("sentinel".into(), 2),
						("tail".into(), 3),
					],
				}),
				prim(Kind::Long),
				prim(Kind::Long),
				prim(Kind::String),
			];
		}
		1 => {
			off = 4;
			nodes = vec![
				prim(Kind::Record {
					name: "zz.Wrap".into(),
					fields: vec![("arr".into(), 1), ("m".into(), 2), ("sentinel".into(), 3)],
				}),
				prim(Kind::Array(off)),
				prim(Kind::Map(off)),
				prim(Kind::Long),
			];
		}
		_ => {
			off = 4;
			nodes = vec![
				prim(Kind::Record {
					name: "zz.Wrap".into(),
					fields: vec![("u".into(), 1), ("sentinel".into(), 3)],
				}),
				prim(Kind::Union(vec![2, off])),
				prim(Kind::Null),
				prim(Kind::Long),
			];
			union_id = Some(1);
		}
	}
	for n in &s.nodes {
		nodes.push(shift(n, off));
	}
	(RSchema { nodes }, off, union_id)
}

pub fn run_case(ctx: &mut Ctx, case_seed: u64) {
	let mut rng = Rng::new(case_seed);
	let mut cfg = SchemaGenCfg::default();
	cfg.max_nodes = *rng.pick(&[1, 4, 10, 20]);
	cfg.allow_namespaces = rng.coin();
	let inner = gen_schema(&mut rng, &cfg);
	let mut form = rng.below(3);
	if form == 2 && matches!(inner.nodes[0].kind, Kind::Union(_) | Kind::Null) {
		form = 0;
	}
	let (rs, s_root, union_id) = wrap(&inner, form);
	let (schema, _) = make_schema(&rs, SchemaVia::Builder, &mut rng);
	let schema = match schema {
		Ok(s) => s,
		Err(e) => {
			ctx.violation(format!("schema-rejected {}", err_sig(&e)), case_seed, json!({"schema": rs.spell(None).compact(), "error": e}));
			return;
		}
	};
	let mut vg = ValueGen::new(&rs);
	vg.budget = *rng.pick(&[10, 60, 300]);
	let v = vg.gen(&mut rng);
	let mut enc = Vec::new();
	let marks;
	{
		let mut lay = Layout::random(&mut rng);
		if encode(&rs, 0, &v, &mut lay, &mut enc).is_err() {
			return;
		}
		marks = lay.marks;
	}
	let has_sized_blocks = marks.iter().any(|m| m.kind == MarkKind::BlockSize);
	let marker = [0xEE, 0xDD, 0x00, 0x02, 0xFF];
	let mut input = enc.clone();
	input.extend_from_slice(&marker);

	// choose what to ignore
	let mut ignore: HashSet<Id> = HashSet::new();
	let mut unit_unions: HashSet<Id> = HashSet::new();
	let reach = rs.reachable();
	let inner_nodes: Vec<Id> = reach.iter().copied().filter(|&i| i >= s_root).collect();
	match rng.below(6) {
		0 => {
			ignore.insert(s_root);
		}
		1 if form == 1 => {
			ignore.insert(1);
			if rng.coin() {
				ignore.insert(2);
			}
		}
		2 if union_id.is_some() => {
			unit_unions.insert(union_id.unwrap());
		}
		3 => {
			// every array/map inside S
			for &i in &inner_nodes {
				if matches!(rs.nodes[i].kind, Kind::Array(_) | Kind::Map(_)) {
					ignore.insert(i);
				}
			}
			if ignore.is_empty() {
				ignore.insert(s_root);
			}
		}
		_ => {
			let k = 1 + rng.below(3);
			for _ in 0..k {
				ignore.insert(*rng.pick(&inner_nodes));
			}
		}
	}
	// a union node cannot itself be "ignored" as a unit variant and via IgnoredAny at once
	let want = erase(&rs, 0, &v, &ignore, &unit_unions);
	let mut mo = ModeOwned::random(&mut rng);
	if !unit_unions.is_empty() {
		mo.union_via = crate::bridge::collect::UnionVia::Enum;
	}
	mo.ignore = Some(ignore.clone());
	mo.unit_variant_unions = Some(unit_unions.clone());
	let lim = Limits::default();
	let describe = |extra: serde_json::Value| {
		json!({"schema": rs.spell(None).compact(), "value": v.to_json(), "bytes": hex_full(&input[..input.len().min(1500)]),
			"ignored_node_ids": ignore.iter().collect::<Vec<_>>(), "unit_variant_unions": unit_unions.iter().collect::<Vec<_>>(), "target": mo.describe(), "extra": extra})
	};
	// sanity: full decode agrees (guards the harness)
	let full = de_slice_val(&schema, &rs, &input, &lim, &ModeOwned::default_typed());
	if !(full.res.as_ref().ok() == Some(&v) && full.consumed == enc.len()) {
		ctx.count("full_decode_disagrees_(reported_by_C03)");
		return;
	}
	let o = de_slice_val(&schema, &rs, &input, &lim, &mo);
	match &o.res {
		Ok(got) if *got == want && o.consumed == enc.len() => {}
		other => {
			let class = match other {
				Err(_) => "error",
				Ok(g) if *g != want => "other-fields-changed",
				_ => "wrong-consumption",
			};
			ctx.violation(
				format!("skip slice {class}"),
				case_seed,
				describe(json!({"got": format!("{:?}", other.as_ref().map(|x| x.to_json())).chars().take(500).collect::<String>(), "consumed": o.consumed, "encoded_len": enc.len()})),
			);
			return;
		}
	}
	ctx.count("skip_ok");
	let sched = if rng.coin() {
		vec![1 + rng.below(3)]
	} else {
		schedule(&mut rng, input.len())
	};
	let o2 = de_reader_val(&schema, &rs, &input, sched.clone(), &lim, &mo);
	match &o2.res {
		Ok(got) if *got == want && o2.consumed == enc.len() => {}
		other => {
			let class = match other {
				Err(_) => "error",
				Ok(g) if *g != want => "other-fields-changed",
				_ => "wrong-consumption",
			};
			ctx.violation(
				format!("skip reader {class}"),
				case_seed,
				describe(json!({"schedule": sched, "got": format!("{:?}", other.as_ref().map(|x| x.to_json())).chars().take(500).collect::<String>(), "consumed": o2.consumed, "encoded_len": enc.len()})),
			);
			return;
		}
	}
	ctx.count("reader_skip_ok");
	let ignores_collection = ignore
		.iter()
		.any(|&i| matches!(rs.nodes[i].kind, Kind::Array(_) | Kind::Map(_)) || i == s_root);
	if has_sized_blocks && ignores_collection {
		ctx.count("ignored_collection_with_sized_blocks");
	}
	if !unit_unions.is_empty() {
		if let Val::Record(fs) = &v {
			if matches!(fs.first(), Some(Val::Union(1, _))) {
				ctx.count("unit_variant_payload_skipped");
			}
		}
	}
	let mut ig: Vec<usize> = ignore.iter().copied().collect();
	ig.sort();
	ctx.distinct_bytes(&[&shape_hash(&rs).to_le_bytes(), &enc, format!("{ig:?}{unit_unions:?}").as_bytes()]);
	ctx.sample(|| describe(json!({"form": form})));
}
