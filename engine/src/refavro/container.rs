//! Reference object-container-file parser and writer, from the specification.
//! Block payloads are (de)compressed through the codec libraries' own streaming front ends
//! (trusted base), snappy through a decoder / literal-only encoder written here.

use super::schema::{crc32_ieee, RSchema};
use super::value::*;
use crate::rng::Rng;
use std::io::{Read, Write};

#[derive(Clone, Copy, Debug, PartialEq, Eq)]
pub enum Codec {
	Null,
	Deflate,
	Bzip2,
	Snappy,
	Xz,
	Zstandard,
}
impl Codec {
	pub const ALL: [Codec; 6] = [Codec::Null, Codec::Deflate, Codec::Bzip2, Codec::Snappy, Codec::Xz, Codec::Zstandard];
	pub fn name(self) -> &'static str {
		match self {
			Codec::Null => "null",
			Codec::Deflate => "deflate",
			Codec::Bzip2 => "bzip2",
			Codec::Snappy => "snappy",
			Codec::Xz => "xz",
			Codec::Zstandard => "zstandard",
		}
	}
	pub fn from_name(s: &str) -> Option<Codec> {
		Codec::ALL.iter().copied().find(|c| c.name() == s)
	}
}

#[derive(Clone, Debug)]
pub struct Block {
	pub count: i64,
	pub size: i64,
	/// offsets in the file: [start of count varint, start of size varint, start of data, end of data (= start of sync), end of sync)
	pub offs: [usize; 5],
	pub raw: Vec<u8>,
}

#[derive(Clone, Debug)]
pub struct Ocf {
	pub meta: Vec<(String, Vec<u8>)>,
	pub sync: [u8; 16],
	pub header_len: usize,
	/// offset of the sync marker in the header
	pub header_sync_at: usize,
	pub codec: Codec,
	pub schema_json: String,
	pub blocks: Vec<Block>,
}

pub fn snappy_decompress(src: &[u8]) -> Result<Vec<u8>, String> {
	let mut i = 0;
	let mut ulen: u64 = 0;
	let mut shift = 0;
	loop {
		let b = *src.get(i).ok_or("snappy: eof in preamble")?;
		i += 1;
		ulen |= ((b & 0x7f) as u64) << shift;
		shift += 7;
		if b & 0x80 == 0 {
			break;
		}
		if shift > 35 {
			return Err("snappy: preamble too long".into());
		}
	}
	if ulen > (1 << 31) {
		return Err("snappy: length too large".into());
	}
	let mut out: Vec<u8> = Vec::with_capacity(ulen as usize);
	while i < src.len() {
		let tag = src[i];
		i += 1;
		match tag & 3 {
			0 => {
				let mut len = (tag >> 2) as usize;
				if len >= 60 {
					let nb = len - 59;
					if i + nb > src.len() {
						return Err("snappy: eof in literal length".into());
					}
					let mut l = 0usize;
					for k in 0..nb {
						l |= (src[i + k] as usize) << (8 * k);
					}
					i += nb;
					len = l;
				}
				len += 1;
				if i + len > src.len() {
					return Err("snappy: eof in literal".into());
				}
				out.extend_from_slice(&src[i..i + len]);
				i += len;
			}
			t => {
				let (len, off) = match t {
					1 => {
						let b = *src.get(i).ok_or("snappy: eof in copy1")? as usize;
						i += 1;
						(4 + ((tag >> 2) & 7) as usize, (((tag >> 5) as usize) << 8) | b)
					}
					2 => {
						if i + 2 > src.len() {
							return Err("snappy: eof in copy2".into());
						}
						let o = src[i] as usize | ((src[i + 1] as usize) << 8);
						i += 2;
						((tag >> 2) as usize + 1, o)
					}
					_ => {
						if i + 4 > src.len() {
							return Err("snappy: eof in copy4".into());
						}
						let o = src[i] as usize | ((src[i + 1] as usize) << 8) | ((src[i + 2] as usize) << 16) | ((src[i + 3] as usize) << 24);
						i += 4;
						((tag >> 2) as usize + 1, o)
					}
				};
				if off == 0 || off > out.len() {
					return Err("snappy: bad offset".into());
				}
				for _ in 0..len {
					let b = out[out.len() - off];
					out.push(b);
				}
			}
		}
	}
	if out.len() as u64 != ulen {
		return Err(format!("snappy: length mismatch {} vs {}", out.len(), ulen));
	}
	Ok(out)
}

/// literal-only snappy stream (valid, uncompressed)
pub fn snappy_compress_literal(src: &[u8]) -> Vec<u8> {
	let mut out = Vec::new();
	put_varint(src.len() as u64, &mut out);
	for chunk in src.chunks(60_000) {
		let n = chunk.len() - 1;
		if n < 60 {
			out.push((n as u8) << 2);
		} else if n < 256 {
			out.push(60 << 2);
			out.push(n as u8);
		} else {
			out.push(61 << 2);
			out.push(n as u8);
			out.push((n >> 8) as u8);
		}
		out.extend_from_slice(chunk);
	}
	out
}

pub fn decompress(codec: Codec, data: &[u8]) -> Result<Vec<u8>, String> {
	let mut out = Vec::new();
	match codec {
		Codec::Null => out.extend_from_slice(data),
		Codec::Deflate => {
			flate2::read::DeflateDecoder::new(data)
				.read_to_end(&mut out)
				.map_err(|e| format!("deflate: {e}"))?;
		}
		Codec::Bzip2 => {
			let mut d = bzip2::read::BzDecoder::new(data);
			d.read_to_end(&mut out).map_err(|e| format!("bzip2: {e}"))?;
			if (d.total_in() as usize) != data.len() {
				return Err("bzip2: trailing bytes after the stream".into());
			}
		}
		Codec::Snappy => {
			if data.len() < 4 {
				return Err("snappy: block shorter than its CRC".into());
			}
			let (body, crc) = data.split_at(data.len() - 4);
			out = snappy_decompress(body)?;
			let want = u32::from_be_bytes(crc.try_into().unwrap());
			if crc32_ieee(&out) != want {
				return Err("snappy: CRC32 (big-endian, of uncompressed data) mismatch".into());
			}
		}
		Codec::Xz => {
			let mut d = xz2::read::XzDecoder::new(data);
			d.read_to_end(&mut out).map_err(|e| format!("xz: {e}"))?;
			if (d.total_in() as usize) != data.len() {
				return Err("xz: trailing bytes after the stream".into());
			}
		}
		Codec::Zstandard => {
			out = zstd::stream::decode_all(data).map_err(|e| format!("zstd: {e}"))?;
		}
	}
	Ok(out)
}

pub fn compress(codec: Codec, raw: &[u8]) -> Vec<u8> {
	match codec {
		Codec::Null => raw.to_vec(),
		Codec::Deflate => {
			let mut e = flate2::write::DeflateEncoder::new(Vec::new(), flate2::Compression::new(6));
			e.write_all(raw).unwrap();
			e.finish().unwrap()
		}
		Codec::Bzip2 => {
			let mut e = bzip2::write::BzEncoder::new(Vec::new(), bzip2::Compression::new(6));
			e.write_all(raw).unwrap();
			e.finish().unwrap()
		}
		Codec::Snappy => {
			let mut out = snappy_compress_literal(raw);
			out.extend_from_slice(&crc32_ieee(raw).to_be_bytes());
			out
		}
		Codec::Xz => {
			let mut e = xz2::write::XzEncoder::new(Vec::new(), 3);
			e.write_all(raw).unwrap();
			e.finish().unwrap()
		}
		Codec::Zstandard => zstd::stream::encode_all(raw, 3).unwrap(),
	}
}

/// Strict parser. `Err((msg, parsed_so_far))` keeps what was valid before the problem.
pub fn parse(b: &[u8]) -> Result<Ocf, (String, Option<Ocf>)> {
	if b.len() < 4 || &b[..4] != b"Obj\x01" {
		return Err(("bad magic".into(), None));
	}
	let mut d = Dec::new(&b[4..]);
	let mut meta: Vec<(String, Vec<u8>)> = Vec::new();
	let e = |m: &str| (m.to_owned(), None);
	loop {
		let mut count = d.long().map_err(|_| e("metadata block count"))?;
		if count == 0 {
			break;
		}
		if count < 0 {
			count = count.checked_neg().ok_or_else(|| e("metadata block count"))?;
			d.long().map_err(|_| e("metadata block size"))?;
		}
		for _ in 0..count {
			let kl = usize::try_from(d.long().map_err(|_| e("metadata key length"))?).map_err(|_| e("negative key length"))?;
			if d.b.len() - d.i < kl {
				return Err(e("metadata key eof"));
			}
			let k = String::from_utf8(d.b[d.i..d.i + kl].to_vec()).map_err(|_| e("metadata key utf8"))?;
			d.i += kl;
			let vl = usize::try_from(d.long().map_err(|_| e("metadata value length"))?).map_err(|_| e("negative value length"))?;
			if d.b.len() - d.i < vl {
				return Err(e("metadata value eof"));
			}
			let v = d.b[d.i..d.i + vl].to_vec();
			d.i += vl;
			meta.push((k, v));
		}
	}
	let mut pos = 4 + d.i;
	if b.len() < pos + 16 {
		return Err(e("header sync eof"));
	}
	let sync: [u8; 16] = b[pos..pos + 16].try_into().unwrap();
	let header_sync_at = pos;
	pos += 16;
	let schema_json = meta
		.iter()
		.rev()
		.find(|(k, _)| k == "avro.schema")
		.map(|(_, v)| String::from_utf8_lossy(v).into_owned())
		.ok_or_else(|| e("no avro.schema"))?;
	let codec = match meta.iter().rev().find(|(k, _)| k == "avro.codec") {
		None => Codec::Null,
		Some((_, v)) => Codec::from_name(&String::from_utf8_lossy(v)).ok_or_else(|| e("unknown codec name"))?,
	};
	let mut ocf = Ocf {
		meta,
		sync,
		header_len: pos,
		header_sync_at,
		codec,
		schema_json,
		blocks: Vec::new(),
	};
	while pos < b.len() {
		let mut d = Dec::new(&b[pos..]);
		let o0 = pos;
		let count = match d.long() {
			Ok(c) => c,
			Err(_) => return Err(("block count".into(), Some(ocf))),
		};
		let o1 = pos + d.i;
		let size = match d.long() {
			Ok(c) => c,
			Err(_) => return Err(("block size".into(), Some(ocf))),
		};
		let o2 = pos + d.i;
		if count < 0 || size < 0 {
			return Err(("negative block count/size".into(), Some(ocf)));
		}
		let o3 = match o2.checked_add(size as usize) {
			Some(x) if x + 16 <= b.len() => x,
			_ => return Err(("block data / sync eof".into(), Some(ocf))),
		};
		if b[o3..o3 + 16] != sync {
			return Err(("block sync marker differs from header".into(), Some(ocf)));
		}
		let raw = match decompress(codec, &b[o2..o3]) {
			Ok(r) => r,
			Err(m) => return Err((m, Some(ocf))),
		};
		ocf.blocks.push(Block {
			count,
			size,
			offs: [o0, o1, o2, o3, o3 + 16],
			raw,
		});
		pos = o3 + 16;
	}
	Ok(ocf)
}

/// decode every object of every block; each block must be consumed exactly
pub fn decode_values(ocf: &Ocf, rs: &RSchema) -> Result<Vec<Val>, String> {
	let mut out = Vec::new();
	for (bi, blk) in ocf.blocks.iter().enumerate() {
		let mut d = Dec::new(&blk.raw);
		d.lenient_varint = true;
		d.budget = 5_000_000usize.saturating_sub(out.len());
		for k in 0..blk.count {
			out.push(decode(rs, 0, &mut d, 0).map_err(|e| format!("block {bi} object {k}: {e:?}"))?);
		}
		if d.i != blk.raw.len() {
			return Err(format!("block {bi}: {} bytes left after {} objects", blk.raw.len() - d.i, blk.count));
		}
	}
	Ok(out)
}

pub struct WriteOpts<'a> {
	pub codec: Codec,
	/// None: omit avro.codec (legal, means null)
	pub write_codec_key: bool,
	pub user_meta: Vec<(String, Vec<u8>)>,
	pub sync: [u8; 16],
	pub rng: &'a mut Rng,
	/// allow blocks with a zero object count
	pub empty_blocks: bool,
}

/// Reference writer: arbitrary block partitioning, metadata order and metadata block layout
pub fn write(schema_json: &str, values_enc: &[Vec<u8>], o: &mut WriteOpts) -> Vec<u8> {
	let mut out = b"Obj\x01".to_vec();
	let mut meta: Vec<(String, Vec<u8>)> = vec![("avro.schema".into(), schema_json.as_bytes().to_vec())];
	if o.write_codec_key {
		meta.push(("avro.codec".into(), o.codec.name().as_bytes().to_vec()));
	}
	meta.extend(o.user_meta.iter().cloned());
	o.rng.shuffle(&mut meta);
	// metadata map in 1..n blocks, positive or negative counts
	let mut i = 0;
	while i < meta.len() {
		let take = if o.rng.coin() { meta.len() - i } else { 1 + o.rng.below(meta.len() - i) };
		let mut body = Vec::new();
		for (k, v) in &meta[i..i + take] {
			put_long(k.len() as i64, &mut body);
			body.extend_from_slice(k.as_bytes());
			put_long(v.len() as i64, &mut body);
			body.extend_from_slice(v);
		}
		if o.rng.chance(1, 3) {
			put_long(-(take as i64), &mut out);
			put_long(body.len() as i64, &mut out);
		} else {
			put_long(take as i64, &mut out);
		}
		out.extend_from_slice(&body);
		i += take;
	}
	put_long(0, &mut out);
	out.extend_from_slice(&o.sync);
	// data blocks
	let mut k = 0;
	while k < values_enc.len() {
		if o.empty_blocks && o.rng.chance(1, 6) {
			put_long(0, &mut out);
			let c = compress(o.codec, &[]);
			put_long(c.len() as i64, &mut out);
			out.extend_from_slice(&c);
			out.extend_from_slice(&o.sync);
		}
		let take = match o.rng.below(4) {
			0 => 1,
			1 => values_enc.len() - k,
			_ => 1 + o.rng.below(values_enc.len() - k),
		};
		let mut raw = Vec::new();
		for v in &values_enc[k..k + take] {
			raw.extend_from_slice(v);
		}
		let c = compress(o.codec, &raw);
		put_long(take as i64, &mut out);
		put_long(c.len() as i64, &mut out);
		out.extend_from_slice(&c);
		out.extend_from_slice(&o.sync);
		k += take;
	}
	out
}
