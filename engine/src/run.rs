//! Process model: a parent that shards work over crash-isolated worker processes, merges
//! what they observed, applies the known-findings file and writes the evidence file.

use crate::rng::{fnv, mix};
use serde_json::{json, Value};
use std::collections::{BTreeMap, HashSet};
use std::io::Write;
use std::path::PathBuf;
use std::time::{Duration, Instant};

pub const VERIF: &str = "/verif";

#[derive(Clone, Debug)]
pub struct Violation {
	pub signature: String,
	pub case_seed: u64,
	pub detail: Value,
}

pub struct Ctx {
	pub prop: &'static str,
	pub thorough: bool,
	pub seed: u64,
	pub shard: u64,
	pub nshards: u64,
	pub deadline: Instant,
	pub counters: BTreeMap<String, u64>,
	pub distinct: HashSet<u64>,
	pub samples: Vec<Value>,
	pub violations: Vec<Violation>,
	pub inconclusive: u64,
	pub cur_fd: Option<std::fs::File>,
	pub evaluations: u64,
	pub verbose: bool,
	pub panics_are_violations: bool,
}

thread_local! {
	static LAST_PANIC: std::cell::RefCell<Option<String>> = const { std::cell::RefCell::new(None) };
}

/// Address-space cap for worker / single-case processes: an allocation running away (in the
/// library or in the harness) ends one process instead of the machine.
pub fn limit_memory() {
	let lim = libc::rlimit {
		rlim_cur: 12 << 30,
		rlim_max: 12 << 30,
	};
	// SAFETY: plain syscall with a valid struct
	unsafe {
		libc::setrlimit(libc::RLIMIT_AS, &lim);
	}
}

pub fn install_panic_hook() {
	std::panic::set_hook(Box::new(|info| {
		let loc = info
			.location()
			.map(|l| format!("{}:{}", l.file(), l.line()))
			.unwrap_or_default();
		let msg = if let Some(s) = info.payload().downcast_ref::<&str>() {
			s.to_string()
		} else if let Some(s) = info.payload().downcast_ref::<String>() {
			s.clone()
		} else {
			"<non-string panic>".into()
		};
		LAST_PANIC.with(|p| *p.borrow_mut() = Some(format!("{loc}: {msg}")));
	}));
}

pub fn take_last_panic() -> Option<String> {
	LAST_PANIC.with(|p| p.borrow_mut().take())
}

/// strip line numbers / volatile parts so that a panic signature is stable across edits
pub fn panic_site(p: &str) -> String {
	let first = p.split(": ").next().unwrap_or("");
	let file = first.rsplit('/').next().unwrap_or(first);
	let file = file.split(':').next().unwrap_or(file);
	let msg: String = p
		.splitn(2, ": ")
		.nth(1)
		.unwrap_or("")
		.chars()
		.filter(|c| !c.is_ascii_digit())
		.take(60)
		.collect();
	format!("{file}:{msg}")
}

impl Ctx {
	pub fn count(&mut self, key: &str) {
		*self.counters.entry(key.to_owned()).or_insert(0) += 1;
	}
	pub fn add(&mut self, key: &str, n: u64) {
		*self.counters.entry(key.to_owned()).or_insert(0) += n;
	}
	pub fn max(&mut self, key: &str, n: u64) {
		let e = self.counters.entry(format!("max:{key}")).or_insert(0);
		if n > *e {
			*e = n;
		}
	}
	/// record a case as distinct & non-trivial by its content hash
	pub fn distinct(&mut self, h: u64) {
		if self.distinct.len() < 1_500_000 {
			self.distinct.insert(h);
		}
	}
	pub fn distinct_bytes(&mut self, parts: &[&[u8]]) {
		let mut h = 0xcbf2_9ce4_8422_2325u64;
		for p in parts {
			h = mix(&[h, fnv(p)]);
		}
		self.distinct(h);
	}
	pub fn sample(&mut self, v: impl FnOnce() -> Value) {
		if self.samples.len() < 3 {
			let x = v();
			self.samples.push(x);
		}
	}
	pub fn violation(&mut self, signature: impl Into<String>, case_seed: u64, detail: Value) {
		let signature = signature.into();
		if self.verbose {
			println!("violation: {signature}\n{}", serde_json::to_string_pretty(&detail).unwrap_or_default());
		}
		// keep at most 3 witnesses per signature
		let n = self.violations.iter().filter(|v| v.signature == signature).count();
		self.count(&format!("violation:{signature}"));
		if n < 3 && self.violations.len() < 200 {
			self.violations.push(Violation {
				signature,
				case_seed,
				detail,
			});
		}
	}
	pub fn time_left(&self) -> bool {
		Instant::now() < self.deadline
	}
	pub fn mark_case(&mut self, case_seed: u64) {
		if let Some(f) = &mut self.cur_fd {
			use std::os::unix::fs::FileExt;
			let _ = f.write_at(&case_seed.to_le_bytes(), 0);
		}
	}
	/// run one case with panic isolation
	pub fn case(&mut self, case_seed: u64, f: impl FnOnce(&mut Ctx, u64)) {
		self.mark_case(case_seed);
		self.evaluations += 1;
		let r = std::panic::catch_unwind(std::panic::AssertUnwindSafe(|| f(self, case_seed)));
		if r.is_err() {
			let p = take_last_panic().unwrap_or_else(|| "unknown panic".into());
			if self.panics_are_violations {
				let sig = format!("panic site={}", panic_site(&p));
				self.violation(sig, case_seed, json!({"panic": p}));
			} else {
				self.count("harness_panic");
				self.violation(format!("harness-panic {}", panic_site(&p)), case_seed, json!({"panic": p}));
			}
		}
	}
}

pub enum Isolated {
	/// the child ran the case; signatures of the violations it reported
	Completed(Vec<String>),
	/// died by signal (stack overflow, abort, ...)
	Died(String),
	/// exceeded the CPU budget and was killed
	CpuBudget(f64),
	/// could not be run (harness problem): inconclusive
	Inconclusive(String),
}

pub fn in_isolated_child() -> bool {
	std::env::var("AVROVERIF_ISOLATED").is_ok()
}

/// Re-run the current case alone in a child process (used for the few cases that probe the stack
/// or may not terminate, so that a crash costs one case and not the worker).
pub fn run_isolated(prop: &str, thorough: bool, case_seed: u64, cpu_secs: f64) -> Isolated {
	let exe = match std::env::current_exe() {
		Ok(e) => e,
		Err(e) => return Isolated::Inconclusive(e.to_string()),
	};
	let mut child = match std::process::Command::new(exe)
		.arg("case")
		.arg(prop)
		.arg(if thorough { "thorough" } else { "quick" })
		.arg(case_seed.to_string())
		.env("AVROVERIF_ISOLATED", "1")
		.stdout(std::process::Stdio::piped())
		.stderr(std::process::Stdio::null())
		.spawn()
	{
		Ok(c) => c,
		Err(e) => return Isolated::Inconclusive(e.to_string()),
	};
	let t0 = Instant::now();
	loop {
		match child.try_wait() {
			Ok(Some(status)) => {
				use std::os::unix::process::ExitStatusExt;
				if let Some(sig) = status.signal() {
					return Isolated::Died(format!("signal {sig}"));
				}
				let mut out = String::new();
				if let Some(mut so) = child.stdout.take() {
					use std::io::Read;
					let _ = so.read_to_string(&mut out);
				}
				let sigs: Vec<String> = out
					.lines()
					.filter_map(|l| l.strip_prefix("VIOLATION property=").and_then(|r| r.split_once(" signature=")).map(|(_, s)| s.to_owned()))
					.collect();
				if status.code() == Some(101) || status.code() == Some(134) {
					return Isolated::Died(format!("exit {:?}", status.code()));
				}
				return Isolated::Completed(sigs);
			}
			Ok(None) => {
				let cpu = proc_cpu_secs(child.id()).unwrap_or(0.0);
				if cpu > cpu_secs {
					let _ = child.kill();
					let _ = child.wait();
					return Isolated::CpuBudget(cpu);
				}
				if t0.elapsed() > Duration::from_secs((cpu_secs * 6.0) as u64 + 60) {
					let _ = child.kill();
					let _ = child.wait();
					return Isolated::Inconclusive("wall-clock watchdog".into());
				}
				std::thread::sleep(Duration::from_millis(5));
			}
			Err(e) => return Isolated::Inconclusive(e.to_string()),
		}
	}
}

pub fn thread_cpu_ns() -> u64 {
	let mut ts = libc::timespec { tv_sec: 0, tv_nsec: 0 };
	// SAFETY: plain syscall writing into a local struct
	unsafe {
		libc::clock_gettime(libc::CLOCK_THREAD_CPUTIME_ID, &mut ts);
	}
	ts.tv_sec as u64 * 1_000_000_000 + ts.tv_nsec as u64
}

pub struct PropSpec {
	pub id: &'static str,
	pub level: &'static str,
	pub rule: &'static str,
	pub assumptions: &'static [&'static str],
	/// (quick, thorough) number of cases per shard and wall budget in seconds
	pub cases: (u64, u64),
	pub secs: (u64, u64),
	/// counters that must be non-zero for the run to count as having observed the anchored paths
	pub required: &'static [&'static str],
	pub run_case: fn(&mut Ctx, u64),
	/// optional: one-off work executed by shard 0 before its cases (exhaustive sub-checks)
	pub once: Option<fn(&mut Ctx)>,
	pub panics_are_violations: bool,
	/// per-case CPU seconds after which the parent kills the worker and reports a work-bound violation
	pub cpu_kill_secs: u64,
	pub max_workers: usize,
}

fn run_dir(prop: &str) -> PathBuf {
	let p = PathBuf::from(format!("{VERIF}/target/run/{prop}"));
	let _ = std::fs::create_dir_all(&p);
	p
}

pub fn worker_main(spec: &PropSpec, thorough: bool, seed: u64, shard: u64, nshards: u64) -> i32 {
	install_panic_hook();
	limit_memory();
	let dir = run_dir(spec.id);
	let cur = std::fs::OpenOptions::new()
		.create(true)
		.write(true)
		.truncate(true)
		.open(dir.join(format!("shard-{shard}.cur")))
		.ok();
	let secs = if thorough { spec.secs.1 } else { spec.secs.0 };
	let secs = std::env::var("VERIF_SECS").ok().and_then(|s| s.parse().ok()).unwrap_or(secs);
	let ncases = if thorough { spec.cases.1 } else { spec.cases.0 };
	let mut ctx = Ctx {
		prop: spec.id,
		thorough,
		seed,
		shard,
		nshards,
		deadline: Instant::now() + Duration::from_secs(secs),
		counters: BTreeMap::new(),
		distinct: HashSet::new(),
		samples: Vec::new(),
		violations: Vec::new(),
		inconclusive: 0,
		cur_fd: cur,
		evaluations: 0,
		verbose: false,
		panics_are_violations: spec.panics_are_violations,
	};
	if shard == 0 {
		if let Some(once) = spec.once {
			ctx.mark_case(u64::MAX);
			let r = std::panic::catch_unwind(std::panic::AssertUnwindSafe(|| once(&mut ctx)));
			if r.is_err() {
				let p = take_last_panic().unwrap_or_default();
				ctx.violation(format!("panic-in-once {}", panic_site(&p)), u64::MAX, json!({"panic": p}));
			}
		}
	}
	let mut i = 0u64;
	let mut last_ckpt = Instant::now();
	while i < ncases && ctx.time_left() {
		let case_seed = mix(&[seed, shard, i, fnv(spec.id.as_bytes())]);
		ctx.case(case_seed, spec.run_case);
		i += 1;
		// checkpoint what was observed so far: a worker killed by the watchdog (hang inside the
		// library) or by a crash still reports the cases it completed
		if i % 64 == 0 && last_ckpt.elapsed() > Duration::from_secs(2) {
			write_shard(&dir, shard, &ctx);
			last_ckpt = Instant::now();
		}
	}
	ctx.mark_case(0);
	write_shard(&dir, shard, &ctx);
	0
}

fn write_shard(dir: &std::path::Path, shard: u64, ctx: &Ctx) {
	let out = json!({
		"shard": shard,
		"evaluations": ctx.evaluations,
		"counters": ctx.counters,
		"samples": ctx.samples,
		"inconclusive": ctx.inconclusive,
		"violations": ctx.violations.iter().map(|v| json!({"signature": v.signature, "case_seed": v.case_seed.to_string(), "detail": v.detail})).collect::<Vec<_>>(),
	});
	let tmp = dir.join(format!("shard-{shard}.json.tmp"));
	let _ = std::fs::write(&tmp, serde_json::to_vec(&out).unwrap());
	let mut hb = Vec::with_capacity(ctx.distinct.len() * 8);
	for h in &ctx.distinct {
		hb.extend_from_slice(&h.to_le_bytes());
	}
	let _ = std::fs::write(dir.join(format!("shard-{shard}.hashes")), hb);
	let _ = std::fs::rename(&tmp, dir.join(format!("shard-{shard}.json")));
}

fn proc_cpu_secs(pid: u32) -> Option<f64> {
	let s = std::fs::read_to_string(format!("/proc/{pid}/stat")).ok()?;
	let rest = s.rsplit(')').next()?;
	let f: Vec<&str> = rest.split_whitespace().collect();
	let ut: f64 = f.get(11)?.parse().ok()?;
	let st: f64 = f.get(12)?.parse().ok()?;
	Some((ut + st) / 100.0)
}

pub struct Known {
	pub entries: Vec<(String, String, String, String)>, // property, signature, status, what
}
impl Known {
	pub fn load() -> Known {
		let mut entries = vec![];
		if let Ok(s) = std::fs::read_to_string(format!("{VERIF}/known_findings.json")) {
			if let Ok(v) = serde_json::from_str::<Value>(&s) {
				for e in v["findings"].as_array().cloned().unwrap_or_default() {
					entries.push((
						e["property"].as_str().unwrap_or("").to_owned(),
						e["signature"].as_str().unwrap_or("").to_owned(),
						e["status"].as_str().unwrap_or("").to_owned(),
						e["what"].as_str().unwrap_or("").to_owned(),
					));
				}
			}
		}
		Known { entries }
	}
	pub fn is_known(&self, prop: &str, sig: &str) -> Option<&str> {
		self.entries
			.iter()
			.find(|e| e.0 == prop && e.1 == sig && e.2 == "known")
			.map(|e| e.3.as_str())
	}
}

pub fn parent_main(spec: &PropSpec, thorough: bool, seed: u64) -> i32 {
	let t0 = Instant::now();
	let dir = run_dir(spec.id);
	for e in std::fs::read_dir(&dir).unwrap().flatten() {
		let _ = std::fs::remove_file(e.path());
	}
	let nworkers: usize = std::env::var("VERIF_WORKERS")
		.ok()
		.and_then(|s| s.parse().ok())
		.unwrap_or(16)
		.min(spec.max_workers.max(1));
	let exe = std::env::current_exe().unwrap();
	let mut children: Vec<(u64, std::process::Child, u64, f64, Instant)> = Vec::new();
	for shard in 0..nworkers as u64 {
		let child = std::process::Command::new(&exe)
			.arg("worker")
			.arg(spec.id)
			.arg(if thorough { "thorough" } else { "quick" })
			.arg(seed.to_string())
			.arg(shard.to_string())
			.arg(nworkers.to_string())
			.stdout(std::process::Stdio::null())
			.stderr(std::fs::File::create(dir.join(format!("shard-{shard}.stderr"))).unwrap())
			.spawn()
			.expect("spawn worker");
		children.push((shard, child, 0, 0.0, Instant::now()));
	}
	let secs = if thorough { spec.secs.1 } else { spec.secs.0 };
	let secs = std::env::var("VERIF_SECS").ok().and_then(|s| s.parse().ok()).unwrap_or(secs);
	let hard_wall = Duration::from_secs(secs * 3 + 120);
	let mut crashes: Vec<(u64, String, u64)> = Vec::new(); // shard, how, case
	let mut cpu_kills: Vec<(u64, u64, f64)> = Vec::new();
	let mut inconclusive_workers = 0u64;
	let mut done: Vec<u64> = Vec::new();
	while done.len() < children.len() {
		std::thread::sleep(Duration::from_millis(100));
		for (shard, child, last_case, cpu_at_change, _since) in children.iter_mut() {
			if done.contains(shard) {
				continue;
			}
			let read_cur = || -> u64 {
				std::fs::read(dir.join(format!("shard-{shard}.cur")))
					.ok()
					.and_then(|b| b.get(0..8).map(|x| u64::from_le_bytes(x.try_into().unwrap())))
					.unwrap_or(0)
			};
			match child.try_wait() {
				Ok(Some(status)) => {
					done.push(*shard);
					if !status.success() {
						use std::os::unix::process::ExitStatusExt;
						let how = match status.signal() {
							Some(sig) => format!("signal {sig}"),
							None => format!("exit {:?}", status.code()),
						};
						crashes.push((*shard, how, read_cur()));
					}
				}
				Ok(None) => {
					let cur = read_cur();
					let cpu = proc_cpu_secs(child.id()).unwrap_or(0.0);
					if cur != *last_case {
						*last_case = cur;
						*cpu_at_change = cpu;
					} else if spec.cpu_kill_secs > 0 && cur != 0 && cpu - *cpu_at_change > spec.cpu_kill_secs as f64 {
						let _ = child.kill();
						let _ = child.wait();
						done.push(*shard);
						cpu_kills.push((*shard, cur, cpu - *cpu_at_change));
					}
					if t0.elapsed() > hard_wall {
						let _ = child.kill();
						let _ = child.wait();
						done.push(*shard);
						inconclusive_workers += 1;
					}
				}
				Err(_) => {
					done.push(*shard);
				}
			}
		}
	}
	// merge
	let mut evaluations = 0u64;
	let mut counters: BTreeMap<String, u64> = BTreeMap::new();
	let mut samples: Vec<Value> = Vec::new();
	let mut violations: Vec<Violation> = Vec::new();
	let mut distinct: HashSet<u64> = HashSet::new();
	let mut inconclusive = 0u64;
	for shard in 0..nworkers as u64 {
		if let Ok(b) = std::fs::read(dir.join(format!("shard-{shard}.json"))) {
			if let Ok(v) = serde_json::from_slice::<Value>(&b) {
				evaluations += v["evaluations"].as_u64().unwrap_or(0);
				inconclusive += v["inconclusive"].as_u64().unwrap_or(0);
				if let Some(c) = v["counters"].as_object() {
					for (k, n) in c {
						let n = n.as_u64().unwrap_or(0);
						if k.starts_with("max:") {
							let e = counters.entry(k.clone()).or_insert(0);
							*e = (*e).max(n);
						} else {
							*counters.entry(k.clone()).or_insert(0) += n;
						}
					}
				}
				if samples.len() < 3 {
					if let Some(s) = v["samples"].as_array() {
						samples.extend(s.iter().take(1).cloned());
					}
				}
				for x in v["violations"].as_array().cloned().unwrap_or_default() {
					violations.push(Violation {
						signature: x["signature"].as_str().unwrap_or("").to_owned(),
						case_seed: x["case_seed"].as_str().and_then(|s| s.parse().ok()).unwrap_or(0),
						detail: x["detail"].clone(),
					});
				}
			}
		}
		if let Ok(b) = std::fs::read(dir.join(format!("shard-{shard}.hashes"))) {
			for c in b.chunks_exact(8) {
				distinct.insert(u64::from_le_bytes(c.try_into().unwrap()));
			}
		}
	}
	// crashes: confirm determinism by re-running the single case alone
	let mut confirmations = 0;
	for (shard, how, case) in &crashes {
		if *case == 0 {
			inconclusive_workers += 1;
			eprintln!("worker {shard} died ({how}) outside any case: inconclusive (see {}/shard-{shard}.stderr)", dir.display());
			continue;
		}
		confirmations += 1;
		let reproduced = if confirmations > 4 {
			// enough witnesses of this run were confirmed; further deaths are counted, not re-run
			false
		} else {
			match run_isolated(spec.id, thorough, *case, 60.0) {
				Isolated::Died(_) => true,
				Isolated::CpuBudget(_) => true,
				_ => false,
			}
		};
		if reproduced {
			violations.push(Violation {
				signature: format!("process-death {how}"),
				case_seed: *case,
				detail: json!({"worker_died": how, "case_seed": case.to_string(), "reproduced_alone": true}),
			});
		} else {
			inconclusive_workers += 1;
			eprintln!("worker {shard} died ({how}) at case {case} but the case alone does not reproduce it: inconclusive");
		}
	}
	for (shard, case, cpu) in &cpu_kills {
		let _ = shard;
		violations.push(Violation {
			signature: "cpu-budget-exceeded".to_string(),
			case_seed: *case,
			detail: json!({"cpu_seconds_on_one_case": cpu, "case_seed": case.to_string()}),
		});
	}

	finish(Report {
		id: spec.id,
		level: spec.level,
		rule: spec.rule,
		assumptions: spec.assumptions,
		required: spec.required,
		thorough,
		seed,
		evaluations,
		distinct: distinct.len(),
		counters,
		samples,
		violations,
		inconclusive,
		inconclusive_workers,
		nworkers,
		wall: t0.elapsed().as_secs_f64(),
		extra: None,
	})
}

pub struct Report<'a> {
	pub id: &'a str,
	pub level: &'a str,
	pub rule: &'a str,
	pub assumptions: &'a [&'a str],
	pub required: &'a [&'a str],
	pub thorough: bool,
	pub seed: u64,
	pub evaluations: u64,
	pub distinct: usize,
	pub counters: BTreeMap<String, u64>,
	pub samples: Vec<Value>,
	pub violations: Vec<Violation>,
	pub inconclusive: u64,
	pub inconclusive_workers: u64,
	pub nworkers: usize,
	pub wall: f64,
	pub extra: Option<Value>,
}

/// Apply the known-findings file, print VIOLATION / KNOWN-FINDING lines, write the evidence
/// file and compute the exit code.
pub fn finish(r: Report) -> i32 {
	let Report {
		id,
		level,
		rule,
		assumptions,
		required,
		thorough,
		seed,
		evaluations,
		distinct,
		counters,
		samples,
		violations,
		inconclusive,
		inconclusive_workers,
		nworkers,
		wall,
		extra,
	} = r;
	let known = Known::load();
	let _ = std::fs::create_dir_all(format!("{VERIF}/replays"));
	let mut n_viol = 0;
	let mut printed_known: HashSet<String> = HashSet::new();
	let mut printed_viol: HashSet<String> = HashSet::new();
	let mut known_hits: BTreeMap<String, u64> = BTreeMap::new();
	for v in &violations {
		if let Some(what) = known.is_known(id, &v.signature) {
			*known_hits.entry(v.signature.clone()).or_insert(0) += 1;
			if printed_known.insert(v.signature.clone()) {
				println!("KNOWN-FINDING: property={} {} [{}]", id, what, v.signature);
			}
			continue;
		}
		n_viol += 1;
		if !printed_viol.insert(v.signature.clone()) {
			continue;
		}
		let path = format!(
			"{VERIF}/replays/{}-{:08x}-{}.json",
			id,
			fnv(v.signature.as_bytes()) as u32,
			v.case_seed
		);
		let body = json!({
			"property": id,
			"tier": if thorough {"thorough"} else {"quick"},
			"case_seed": v.case_seed.to_string(),
			"signature": v.signature,
			"detail": v.detail,
			"replay_cmd": format!("./check replay {path}"),
		});
		let _ = std::fs::write(&path, serde_json::to_string_pretty(&body).unwrap());
		println!("VIOLATION property={} replay={}", id, path);
		println!("  signature: {}", v.signature);
	}
	// required paths
	let mut missing: Vec<&str> = Vec::new();
	for r in required {
		if counters.get(*r).copied().unwrap_or(0) == 0 {
			missing.push(r);
		}
	}
	let mut cov = json!({
		"evaluations": evaluations,
		"distinct_nontrivial": distinct,
		"rule": rule,
		"samples": samples,
		"exhaustive": false,
		"counters": counters,
		"inconclusive_cases": inconclusive,
		"inconclusive_workers": inconclusive_workers,
		"known_findings_observed": known_hits,
		"workers": nworkers,
		"required_paths_missing": missing,
	});
	if let Some(extra) = extra {
		if let (Some(c), Some(e)) = (cov.as_object_mut(), extra.as_object()) {
			for (k, v) in e {
				c.insert(k.clone(), v.clone());
			}
		}
	}
	let ev = json!({
		"property_id": id,
		"tier": if thorough {"thorough"} else {"quick"},
		"seed": seed,
		"level": level,
		"coverage": cov,
		"assumptions": assumptions,
		"wall_s": wall,
		"violations": n_viol,
	});
	let _ = std::fs::create_dir_all(format!("{VERIF}/evidence"));
	std::fs::write(
		format!("{VERIF}/evidence/{}.json", id),
		serde_json::to_string_pretty(&ev).unwrap(),
	)
	.unwrap();
	println!(
		"{}: {} cases, {} distinct, {} violation witnesses ({} known-finding signatures), {} inconclusive, {:.1}s",
		id,
		evaluations,
		distinct,
		n_viol,
		known_hits.len(),
		inconclusive + inconclusive_workers,
		wall
	);
	let mut out = std::io::stdout();
	let _ = out.flush();
	if n_viol > 0 {
		return 1;
	}
	if !missing.is_empty() || evaluations == 0 {
		eprintln!("check observed nothing on required paths: {missing:?}");
		return 2;
	}
	0
}
