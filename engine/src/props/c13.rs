//! C13 — record bytes independent of field order; omitted nullable fields encode as null;
//! unknown / duplicated / missing-required fields give Err.

use crate::bridge::call::Call;
use crate::gen::schema::{gen_schema, shape_hash, SchemaGenCfg};
use crate::gen::value::ValueGen;
use crate::props::c02::canonical_call;
use crate::refavro::schema::*;
use crate::refavro::value::*;
use crate::rng::Rng;
use crate::run::{Ctx, PropSpec};
use crate::sut::*;
use serde_json::json;

pub const SPEC: PropSpec = PropSpec {
	id: "C13",
	level: "exploration",
	rule: "case = record schema (nested records, records in arrays/maps/unions, null and union-with-null fields anywhere) + conforming value; the reference encoding in schema order is the oracle (byte-exact). Presentations: every permutation of the root record's fields when it has <= 5 fields (else 40 sampled), nested records permuted independently per presentation, every subset of omissible (null / union-with-null holding null) root fields, as struct / struct variant / map with serialize_entry / map with split key+value; in a third of the cases byte strings are presented as u8 sequences of unknown length (allow_slow_sequence_to_bytes on); in a quarter of the cases every presentation is streamed into a writer accepting 1-16 bytes per write call; then injections at every position of the root field list: a duplicate of each field (before and after its turn), an unknown field, removal of a required field - all must give Err. distinct by hash(schema shape, value bytes, presentation)",
	assumptions: &["collections are presented with exact length hints, so the layout of the expected encoding is determined"],
	cases: (50_000_000, 4_000_000_000),
	secs: (30, 600),
	required: &["cases_with_bytes_as_unsized_sequences", "cases_into_short_writing_sink", "cases_with_a_type_named_like_a_primitive_branch", "permutations_equal", "omissions_equal", "duplicate_rejected", "unknown_rejected", "missing_required_rejected", "nested_out_of_order"],
	run_case,
	once: None,
	panics_are_violations: true,
	cpu_kill_secs: 60,
	max_workers: 16,
};

#[derive(Clone, Copy, PartialEq, Debug)]
enum RecAs {
	Struct,
	StructVariant,
	Map,
	MapSplit,
}

fn is_omissible(rs: &RSchema, fid: Id, v: &Val) -> bool {
	match (rs.eff(fid), v) {
		(Eff::Null, _) => true,
		(Eff::Union(bs), Val::Union(i, _)) => matches!(rs.eff(bs[*i]), Eff::Null),
		_ => false,
	}
}

/// Build the call tree; `root_order`/`root_omit` drive the root record, nested records are
/// permuted at random when `shuffle_nested`.
fn build(
	rs: &RSchema,
	id: Id,
	v: &Val,
	rng: &mut Rng,
	root: Option<(&[usize], &[bool], RecAs)>,
	shuffle_nested: bool,
	nested_ooo: &mut bool,
) -> Call {
	match (rs.eff(id), v) {
		(Eff::Record, Val::Record(vals)) => {
			let (name, fields) = match &rs.node(id).kind {
				Kind::Record { name, fields } => (name, fields),
				_ => unreachable!(),
			};
			let (order, omit, as_): (Vec<usize>, Vec<bool>, RecAs) = match root {
				Some((o, m, a)) => (o.to_vec(), m.to_vec(), a),
				None => {
					let mut o: Vec<usize> = (0..fields.len()).collect();
					if shuffle_nested && rng.chance(2, 3) {
						rng.shuffle(&mut o);
						if o.windows(2).any(|w| w[0] > w[1]) {
							*nested_ooo = true;
						}
					}
					let m: Vec<bool> = (0..fields.len())
						.map(|k| is_omissible(rs, fields[k].1, &vals[k]) && shuffle_nested && rng.chance(1, 3))
						.collect();
					(o, m, *rng.pick(&[RecAs::Struct, RecAs::Struct, RecAs::Map, RecAs::MapSplit]))
				}
			};
			let mut es: Vec<(String, Call)> = Vec::new();
			let skip_style = matches!(as_, RecAs::Struct | RecAs::StructVariant) && rng.chance(1, 2);
			for &k in &order {
				if omit[k] {
					// what #[serde(skip_serializing_if = ..)] does: the field's turn comes, and it is skipped
					if skip_style {
						es.push((fields[k].0.clone(), Call::SkipField));
					}
					continue;
				}
				es.push((
					fields[k].0.clone(),
					build(rs, fields[k].1, &vals[k], rng, None, shuffle_nested, nested_ooo),
				));
			}
			match as_ {
				RecAs::Struct => Call::Struct(name.clone(), es),
				RecAs::StructVariant => Call::StructVariant(name.clone(), es),
				RecAs::Map => Call::Map(Some(es.len()), es.into_iter().map(|(k, c)| (Call::Str(k), c)).collect(), false),
				RecAs::MapSplit => Call::Map(None, es.into_iter().map(|(k, c)| (Call::Str(k), c)).collect(), true),
			}
		}
		(Eff::Array(item), Val::Array(xs)) => Call::Seq(
			Some(xs.len()),
			xs.iter()
				.map(|x| build(rs, item, x, rng, None, shuffle_nested, nested_ooo))
				.collect(),
		),
		(Eff::Map(item), Val::Map(es)) => Call::Map(
			Some(es.len()),
			es.iter()
				.map(|(k, x)| (Call::Str(k.clone()), build(rs, item, x, rng, None, shuffle_nested, nested_ooo)))
				.collect(),
			false,
		),
		(Eff::Union(bs), Val::Union(i, x)) => {
			let inner = build(rs, bs[*i], x, rng, None, shuffle_nested, nested_ooo);
			let is_null = matches!(rs.eff(bs[*i]), Eff::Null);
			let a_type_is_called_null = bs.iter().any(|&b| !matches!(rs.eff(b), Eff::Null) && rs.branch_name(b) == "Null");
			if is_null && a_type_is_called_null {
				// the name `Null` designates that type here; the null branch is reached through its own serde type
				Call::Unit
			} else {
				Call::NewtypeVariant(rs.branch_name(bs[*i]), Box::new(inner))
			}
		}
		(Eff::Bytes, Val::Bytes(b)) if BYTES_AS_UNSIZED_SEQ.with(|x| x.get()) => Call::Seq(None, b.iter().map(|x| Call::U8(*x)).collect()),
		_ => canonical_call(rs, id, v),
	}
}

fn permutations(n: usize, rng: &mut Rng) -> Vec<Vec<usize>> {
	if n <= 5 {
		let mut out = Vec::new();
		let mut cur: Vec<usize> = (0..n).collect();
		fn heap(k: usize, a: &mut Vec<usize>, out: &mut Vec<Vec<usize>>) {
			if k <= 1 {
				out.push(a.clone());
				return;
			}
			for i in 0..k {
				heap(k - 1, a, out);
				if k % 2 == 0 {
					a.swap(i, k - 1);
				} else {
					a.swap(0, k - 1);
				}
			}
		}
		heap(n, &mut cur, &mut out);
		out
	} else {
		let mut out = vec![(0..n).collect::<Vec<_>>(), (0..n).rev().collect()];
		for _ in 0..38 {
			let mut p: Vec<usize> = (0..n).collect();
			rng.shuffle(&mut p);
			out.push(p);
		}
		out
	}
}

thread_local! {
	/// per case: byte strings are presented as sequences of u8 of unknown length (what transcoding or `collect_seq` over
	/// a filtered iterator does), with `allow_slow_sequence_to_bytes` switched on
	static BYTES_AS_UNSIZED_SEQ: std::cell::Cell<bool> = std::cell::Cell::new(false);
	/// per case: the datum is streamed into a writer that accepts at most this many bytes per write call (0 = a Vec)
	static SINK_QUOTA: std::cell::Cell<usize> = std::cell::Cell::new(0);
}

fn ser(schema: &serde_avro_fast::Schema, c: &Call) -> Result<Vec<u8>, String> {
	let mut cfg = serde_avro_fast::ser::SerializerConfig::new(schema);
	if BYTES_AS_UNSIZED_SEQ.with(|b| b.get()) {
		cfg.allow_slow_sequence_to_bytes();
	}
	let quota = SINK_QUOTA.with(|q| q.get());
	if quota == 0 {
		serde_avro_fast::to_datum_vec(c, &mut cfg).map_err(|e| e.to_string())
	} else {
		let sink = crate::io::ScheduledSink::new(vec![quota], quota % 2 == 0);
		serde_avro_fast::to_datum(c, sink, &mut cfg).map(|s| s.out).map_err(|e| e.to_string())
	}
}

/// generate a schema whose root is a record
fn record_schema(rng: &mut Rng) -> RSchema {
	for _ in 0..50 {
		let mut cfg = SchemaGenCfg::default();
		cfg.max_nodes = *rng.pick(&[6, 12, 24, 40]);
		let rs = gen_schema(rng, &cfg);
		if let Kind::Record { fields, .. } = &rs.nodes[0].kind {
			if !fields.is_empty() {
				return rs;
			}
		}
	}
	let p = |k: Kind| Node { kind: k, logical: None };
	RSchema {
		nodes: vec![
			p(Kind::Record {
				name: "R".into(),
				fields: vec![("a".into(), 1), ("b".into(), 2), ("c".into(), 5), ("d".into(), 1)],
			}),
			p(Kind::Int),
			p(Kind::Union(vec![3, 4])),
			p(Kind::Null),
			p(Kind::String),
			p(Kind::Null),
		],
	}
}

pub fn run_case(ctx: &mut Ctx, case_seed: u64) {
	let mut rng = Rng::new(case_seed);
	let rs = record_schema(&mut rng);
	// a named type that is a branch of a union with null is now and then called `Null` (or `Int`, `String`): the names under
	// which primitive branches are selected must not get in the way of omitted / explicit nulls
	let mut rs = rs;
	if rng.chance(1, 8) {
		let mut target: Option<Id> = None;
		for n in rs.nodes.iter() {
			if let Kind::Union(bs) = &n.kind {
				if bs.iter().any(|&b| matches!(rs.nodes[b].kind, Kind::Null)) {
					// (a type that already lives in the null namespace: renaming must not move it to another one)
					if let Some(&b) = bs.iter().find(|&&b| matches!(&rs.nodes[b].kind, Kind::Enum { name, .. } | Kind::Fixed { name, .. } if !name.contains('.'))) {
						target = Some(b);
						break;
					}
				}
			}
		}
		// (only `Null`: a type called `Int` next to an int branch makes the name `Int` designate the type, by the
		// documented priority of fullnames, and the harness selects branches by name)
		let new_name = "Null".to_owned();
		let taken = rs.nodes.iter().any(|n| matches!(&n.kind, Kind::Record { name, .. } | Kind::Enum { name, .. } | Kind::Fixed { name, .. } if *name == new_name));
		if let (Some(t), false) = (target, taken) {
			match &mut rs.nodes[t].kind {
				Kind::Enum { name, .. } | Kind::Fixed { name, .. } => *name = new_name,
				_ => {}
			}
			ctx.count("cases_with_a_type_named_like_a_primitive_branch");
		}
	}
	let unsized_bytes = rng.chance(1, 3);
	BYTES_AS_UNSIZED_SEQ.with(|b| b.set(unsized_bytes));
	let quota = if rng.chance(1, 4) { *rng.pick(&[1usize, 2, 3, 7, 16]) } else { 0 };
	SINK_QUOTA.with(|q| q.set(quota));
	if quota > 0 {
		ctx.count("cases_into_short_writing_sink");
	}
	if unsized_bytes && rs.reachable().iter().any(|&i| matches!(rs.eff(i), Eff::Bytes)) {
		ctx.count("cases_with_bytes_as_unsized_sequences");
	}
	let (schema, _) = make_schema(&rs, pick_via(&mut rng), &mut rng);
	let schema = match schema {
		Ok(s) => s,
		Err(e) => {
			ctx.violation(format!("schema-rejected {}", err_sig(&e)), case_seed, json!({"schema": rs.spell(None).compact(), "error": e}));
			return;
		}
	};
	let mut vg = ValueGen::new(&rs);
	vg.budget = *rng.pick(&[10, 60]);
	let v = vg.gen(&mut rng);
	let want = match encode_canonical(&rs, &v) {
		Ok(b) => b,
		Err(_) => return,
	};
	let (fields, vals) = match (&rs.nodes[0].kind, &v) {
		(Kind::Record { fields, .. }, Val::Record(vals)) => (fields.clone(), vals.clone()),
		_ => return,
	};
	let n = fields.len();
	let omissible: Vec<bool> = (0..n).map(|k| is_omissible(&rs, fields[k].1, &vals[k])).collect();
	let describe = |c: &Call, extra: serde_json::Value| {
		json!({"schema": rs.spell(None).compact(), "value": v.to_json(), "presentation": c.short(), "expected_bytes": hex(&want), "extra": extra})
	};
	// ---- permutations x representation
	let perms = permutations(n, &mut rng);
	let none = vec![false; n];
	for (pi, perm) in perms.iter().enumerate() {
		let as_ = [RecAs::Struct, RecAs::Map, RecAs::MapSplit, RecAs::StructVariant][pi % 4];
		let mut nested_ooo = false;
		let c = build(&rs, 0, &v, &mut rng, Some((perm, &none, as_)), pi % 3 != 0, &mut nested_ooo);
		match ser(&schema, &c) {
			Ok(b) if b == want => {
				ctx.count("permutations_equal");
				if nested_ooo {
					ctx.count("nested_out_of_order");
				}
				ctx.distinct_bytes(&[&shape_hash(&rs).to_le_bytes(), &want, format!("{perm:?}{as_:?}").as_bytes()]);
			}
			other => {
				ctx.violation(
					format!("permutation-changes-result as={as_:?} {}", match &other { Ok(_) => "different-bytes".to_string(), Err(e) => err_sig(e) }),
					case_seed,
					describe(&c, json!({"order": perm, "got": other.as_ref().map(|b| hex(b)).map_err(|e| e.clone())})),
				);
				return;
			}
		}
	}
	// ---- omissions: every subset of omissible root fields (capped)
	let om_idx: Vec<usize> = (0..n).filter(|&k| omissible[k]).collect();
	let subsets = 1usize << om_idx.len().min(6);
	for mask in 1..subsets {
		let mut omit = vec![false; n];
		for (b, &k) in om_idx.iter().enumerate().take(6) {
			if mask & (1 << b) != 0 {
				omit[k] = true;
			}
		}
		let perm = rng.pick(&perms).clone();
		let as_ = *rng.pick(&[RecAs::Struct, RecAs::Map, RecAs::MapSplit]);
		let mut nested_ooo = false;
		let c = build(&rs, 0, &v, &mut rng, Some((&perm, &omit, as_)), true, &mut nested_ooo);
		match ser(&schema, &c) {
			Ok(b) if b == want => {
				ctx.count("omissions_equal");
			}
			other => {
				ctx.violation(
					format!("omitted-nullable-field-changes-result as={as_:?} {}", match &other { Ok(_) => "different-bytes".to_string(), Err(e) => err_sig(e) }),
					case_seed,
					describe(&c, json!({"order": perm, "omitted": omit, "got": other.as_ref().map(|b| hex(b)).map_err(|e| e.clone())})),
				);
				return;
			}
		}
	}
	// ---- injections
	for _ in 0..24 {
		let perm = rng.pick(&perms).clone();
		let as_ = *rng.pick(&[RecAs::Struct, RecAs::Map, RecAs::MapSplit]);
		let mut nested_ooo = false;
		let mut omit = vec![false; n];
		// sometimes also omit some omissible fields, so that "pending" fields exist at end()
		for &k in &om_idx {
			if rng.chance(1, 4) {
				omit[k] = true;
			}
		}
		let c = build(&rs, 0, &v, &mut rng, Some((&perm, &omit, as_)), false, &mut nested_ooo);
		// get at the entry list
		let (mut entries, rebuild): (Vec<(String, Call)>, Box<dyn Fn(Vec<(String, Call)>) -> Call>) = match c {
			Call::Struct(nm, es) => (es, Box::new(move |es| Call::Struct(nm.clone(), es))),
			Call::Map(_, es, split) => (
				es.into_iter()
					.map(|(k, c)| match k {
						Call::Str(s) => (s, c),
						_ => unreachable!(),
					})
					.collect(),
				Box::new(move |es: Vec<(String, Call)>| {
					Call::Map(
						if split { None } else { Some(es.len()) },
						es.into_iter().map(|(k, c)| (Call::Str(k), c)).collect(),
						split,
					)
				}),
			),
			_ => continue,
		};
		let kind = rng.below(3);
		let label;
		match kind {
			0 if entries.iter().any(|e| e.1 != Call::SkipField) => {
				// (a repeated skip_field announces nothing twice: only fields with a value count as duplicates)
				let with_value: Vec<usize> = (0..entries.len()).filter(|&i| entries[i].1 != Call::SkipField).collect();
				let src = *rng.pick(&with_value);
				let dup = entries[src].clone();
				let at = rng.below(entries.len() + 1);
				entries.insert(at, dup);
				label = "duplicate";
			}
			1 => {
				let at = rng.below(entries.len() + 1);
				let name = (*rng.pick(&["zzz", "A", "", "a ", "id2"])).to_owned();
				if fields.iter().any(|f| f.0 == name) {
					continue;
				}
				entries.insert(at, (name, Call::I32(1)));
				label = "unknown";
			}
			_ => {
				let required: Vec<usize> = entries
					.iter()
					.enumerate()
					.filter(|(_, (name, _))| {
						let k = fields.iter().position(|f| &f.0 == name).unwrap();
						!matches!(rs.eff(fields[k].1), Eff::Null)
							&& !matches!(rs.eff(fields[k].1), Eff::Union(ref bs) if bs.iter().any(|&b| matches!(rs.eff(b), Eff::Null)))
					})
					.map(|(i, _)| i)
					.collect();
				if required.is_empty() {
					continue;
				}
				let at = *rng.pick(&required);
				entries.remove(at);
				label = "missing-required";
			}
			#[allow(unreachable_patterns)]
			_ => continue,
		}
		let c2 = rebuild(entries);
		match ser(&schema, &c2) {
			Err(_) => ctx.count(&format!("{}_rejected", label.replace('-', "_"))),
			Ok(b) => {
				ctx.violation(
					format!("{label}-field-accepted as={as_:?}"),
					case_seed,
					describe(&c2, json!({"got_bytes": hex(&b)})),
				);
				return;
			}
		}
	}
	ctx.sample(|| json!({"schema": rs.spell(None).compact(), "value": v.to_json(), "root_fields": n, "permutations": perms.len(), "omissible": om_idx}));
}
