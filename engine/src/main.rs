//! avroverif — runtime monitors for Ten0/serde_avro_fast (see /verif/DESIGN.md)

mod alloc;
mod bridge;
mod gen;
mod io;
mod json;
mod props;
mod refavro;
mod rng;
mod run;
mod sut;
mod sutc;

use run::PropSpec;

#[cfg(not(any(miri, feature = "no_alloc_monitor")))]
#[global_allocator]
static GLOBAL: alloc::Counting = alloc::Counting;

fn spec(id: &str) -> Option<&'static PropSpec> {
	props::ALL.iter().copied().find(|s| s.id == id)
}

fn main() {
	let args: Vec<String> = std::env::args().collect();
	let usage = || -> ! {
		eprintln!("usage: avroverif run <Cxx> quick|thorough [seed] | worker <Cxx> <tier> <seed> <shard> <nshards> | case <Cxx> <tier> <case_seed> | replay <file>");
		std::process::exit(2)
	};
	if args.len() < 2 {
		usage();
	}
	let code = match args[1].as_str() {
		"run" if args.len() >= 4 && args[2] == "C10" => {
			let seed = args
				.get(4)
				.and_then(|s| s.parse().ok())
				.or_else(|| std::env::var("VERIF_SEED").ok().and_then(|s| s.parse().ok()))
				.unwrap_or(1);
			props::c10::run(args[3] == "thorough", seed)
		}
		"run" if args.len() >= 4 && args[2] == "C20" => {
			let seed = args
				.get(4)
				.and_then(|s| s.parse().ok())
				.or_else(|| std::env::var("VERIF_SEED").ok().and_then(|s| s.parse().ok()))
				.unwrap_or(1);
			props::c20::run(args[3] == "thorough", seed)
		}
		"run" if args.len() >= 4 => {
			let sp = spec(&args[2]).unwrap_or_else(|| usage());
			let thorough = args[3] == "thorough";
			let seed = args
				.get(4)
				.and_then(|s| s.parse().ok())
				.or_else(|| std::env::var("VERIF_SEED").ok().and_then(|s| s.parse().ok()))
				.unwrap_or(1);
			run::parent_main(sp, thorough, seed)
		}
		"worker" if args.len() >= 7 => {
			let sp = spec(&args[2]).unwrap_or_else(|| usage());
			run::worker_main(
				sp,
				args[3] == "thorough",
				args[4].parse().unwrap(),
				args[5].parse().unwrap(),
				args[6].parse().unwrap(),
			)
		}
		"debug" => { props::c01::debug_schema(args[2].parse().unwrap()); 0 }
		"debug07" => { props::c07::debug_schema(args[2].parse().unwrap()); 0 }
		"case" if args.len() >= 5 => {
			let sp = spec(&args[2]).unwrap_or_else(|| usage());
			single_case(sp, args[3] == "thorough", args[4].parse().unwrap())
		}
		"replay" if args.len() >= 3 => {
			let body = std::fs::read_to_string(&args[2]).expect("read replay file");
			let v: serde_json::Value = serde_json::from_str(&body).expect("replay json");
			let sp = spec(v["property"].as_str().unwrap_or("")).unwrap_or_else(|| usage());
			let case_seed: u64 = v["case_seed"].as_str().and_then(|s| s.parse().ok()).unwrap_or(0);
			println!("replaying {} case_seed={} (recorded signature: {})", sp.id, case_seed, v["signature"]);
			single_case(sp, v["tier"] == "thorough", case_seed)
		}
		_ => usage(),
	};
	std::process::exit(code);
}

fn single_case(sp: &'static PropSpec, thorough: bool, case_seed: u64) -> i32 {
	run::install_panic_hook();
	run::limit_memory();
	let mut ctx = run::Ctx {
		prop: sp.id,
		thorough,
		seed: 0,
		shard: 0,
		nshards: 1,
		deadline: std::time::Instant::now() + std::time::Duration::from_secs(3600),
		counters: Default::default(),
		distinct: Default::default(),
		samples: vec![],
		violations: vec![],
		inconclusive: 0,
		cur_fd: None,
		evaluations: 0,
		verbose: true,
		panics_are_violations: sp.panics_are_violations,
	};
	if case_seed == u64::MAX {
		if let Some(once) = sp.once {
			once(&mut ctx);
		}
	} else {
		ctx.case(case_seed, sp.run_case);
	}
	println!("counters: {:?}", ctx.counters);
	if ctx.violations.is_empty() {
		println!("case held");
		0
	} else {
		for v in &ctx.violations {
			println!("VIOLATION property={} signature={}", sp.id, v.signature);
		}
		1
	}
}
