//! Runs the generated family of derived types (src/generated.rs is written by c20gen/gen.py at check time):
//! builds each schema (twice, and from a second thread), prints it, and round-trips random values.
#![allow(dead_code, non_camel_case_types, clippy::all)]

mod generated;

use serde_avro_derive::BuildSchema;
use std::collections::{BTreeMap, HashMap};
use std::rc::Rc;
use std::sync::Arc;

pub struct Rng(u64);
impl Rng {
	pub fn new(seed: u64) -> Self {
		Rng(seed ^ 0x9E3779B97F4A7C15)
	}
	pub fn next(&mut self) -> u64 {
		self.0 = self.0.wrapping_add(0x9E3779B97F4A7C15);
		let mut z = self.0;
		z = (z ^ (z >> 30)).wrapping_mul(0xBF58476D1CE4E5B9);
		z = (z ^ (z >> 27)).wrapping_mul(0x94D049BB133111EB);
		z ^ (z >> 31)
	}
	pub fn below(&mut self, n: usize) -> usize {
		(self.next() % n as u64) as usize
	}
}

pub trait Gen: Sized {
	fn gen(r: &mut Rng, d: usize) -> Self;
}
macro_rules! gen_int {
	($($t:ty),*) => {$(
		impl Gen for $t {
			fn gen(r: &mut Rng, _d: usize) -> Self {
				match r.below(6) {
					0 => <$t>::MAX,
					1 => <$t>::MIN,
					2 => 0 as $t,
					3 => 1 as $t,
					_ => r.next() as $t,
				}
			}
		}
	)*};
}
gen_int!(i8, i16, i32, i64, u8, u16, u32);
impl Gen for u64 {
	// unsigned integers within the range of the Avro type they map to (long)
	fn gen(r: &mut Rng, _d: usize) -> Self {
		match r.below(5) {
			0 => i64::MAX as u64,
			1 => 0,
			_ => r.next() >> 1,
		}
	}
}
impl Gen for usize {
	fn gen(r: &mut Rng, d: usize) -> Self {
		u64::gen(r, d) as usize
	}
}
impl Gen for bool {
	fn gen(r: &mut Rng, _d: usize) -> Self {
		r.next() & 1 == 1
	}
}
impl Gen for f32 {
	fn gen(r: &mut Rng, _d: usize) -> Self {
		let f = f32::from_bits(r.next() as u32);
		if f.is_nan() { -0.0 } else { f }
	}
}
impl Gen for f64 {
	fn gen(r: &mut Rng, _d: usize) -> Self {
		let f = f64::from_bits(r.next());
		if f.is_nan() { f64::MIN_POSITIVE } else { f }
	}
}
impl Gen for String {
	fn gen(r: &mut Rng, _d: usize) -> Self {
		match r.below(5) {
			0 => String::new(),
			1 => "Null".into(),
			2 => "é☃ unicode".into(),
			_ => format!("s{}", r.below(1000)),
		}
	}
}
impl Gen for () {
	fn gen(_r: &mut Rng, _d: usize) -> Self {}
}
impl<T: Gen> Gen for Option<T> {
	fn gen(r: &mut Rng, d: usize) -> Self {
		if d > 5 || r.below(3) == 0 { None } else { Some(T::gen(r, d + 1)) }
	}
}
impl<T: Gen> Gen for Vec<T> {
	fn gen(r: &mut Rng, d: usize) -> Self {
		let n = if d > 5 { 0 } else { r.below(4) };
		(0..n).map(|_| T::gen(r, d + 1)).collect()
	}
}
impl<T: Gen> Gen for HashMap<String, T> {
	fn gen(r: &mut Rng, d: usize) -> Self {
		let n = if d > 5 { 0 } else { r.below(3) };
		(0..n).map(|i| (format!("k{i}"), T::gen(r, d + 1))).collect()
	}
}
impl<T: Gen> Gen for BTreeMap<String, T> {
	fn gen(r: &mut Rng, d: usize) -> Self {
		let n = if d > 5 { 0 } else { r.below(3) };
		(0..n).map(|i| (format!("b{i}"), T::gen(r, d + 1))).collect()
	}
}
impl<T: Gen> Gen for Box<T> {
	fn gen(r: &mut Rng, d: usize) -> Self {
		Box::new(T::gen(r, d))
	}
}
impl<T: Gen> Gen for Rc<T> {
	fn gen(r: &mut Rng, d: usize) -> Self {
		Rc::new(T::gen(r, d))
	}
}
impl<T: Gen> Gen for Arc<T> {
	fn gen(r: &mut Rng, d: usize) -> Self {
		Arc::new(T::gen(r, d))
	}
}
impl<const N: usize> Gen for [u8; N] {
	fn gen(r: &mut Rng, _d: usize) -> Self {
		let mut a = [0u8; N];
		for x in a.iter_mut() {
			*x = r.next() as u8;
		}
		a
	}
}
pub fn gen_decimal(r: &mut Rng, scale: u32) -> rust_decimal::Decimal {
	let m = match r.below(6) {
		0 => 0,
		1 => -1,
		2 => 1,
		3 => i64::MAX / 4,
		4 => -(r.next() as i64 >> 3).abs(),
		_ => r.next() as i64 >> 8,
	};
	rust_decimal::Decimal::new(m, scale)
}

pub struct Runtime {
	pub seed: u64,
	pub values_per_type: usize,
	pub names: Vec<(String, String)>,
}

fn esc(s: &str) -> String {
	serde_json::to_string(s).unwrap()
}

impl Runtime {
	pub fn check<T>(&mut self, identity: &str)
	where
		T: BuildSchema + serde::Serialize + serde::de::DeserializeOwned + PartialEq + std::fmt::Debug + Gen,
	{
		let s1 = std::panic::catch_unwind(|| T::schema());
		let schema = match s1 {
			Err(_) => {
				println!("{{\"type\":{},\"failure\":\"schema-panicked\"}}", esc(identity));
				return;
			}
			Ok(Err(e)) => {
				println!("{{\"type\":{},\"failure\":\"schema-error\",\"detail\":{}}}", esc(identity), esc(&e.to_string()));
				return;
			}
			Ok(Ok(s)) => s,
		};
		let again = T::schema().map(|s| s.json().to_owned()).unwrap_or_default();
		let threaded = std::thread::scope(|sc| sc.spawn(|| T::schema().map(|s| s.json().to_owned()).unwrap_or_default()).join().unwrap_or_default());
		let deterministic = again == schema.json() && threaded == schema.json();
		let mut rng = Rng::new(self.seed ^ identity.len() as u64 ^ identity.bytes().fold(0u64, |a, b| a.wrapping_mul(131).wrapping_add(b as u64)));
		let mut cfg = serde_avro_fast::ser::SerializerConfig::new(&schema);
		let mut ok = 0usize;
		let mut failures: Vec<String> = Vec::new();
		let mut bytes_total = 0usize;
		for i in 0..self.values_per_type {
			let v = T::gen(&mut rng, 0);
			let bytes = match serde_avro_fast::to_datum_vec(&v, &mut cfg) {
				Ok(b) => b,
				Err(e) => {
					if failures.len() < 3 {
						failures.push(format!("serialize: {e} | value: {:.300}", format!("{v:?}")));
					}
					continue;
				}
			};
			bytes_total += bytes.len();
			match serde_avro_fast::from_datum_slice::<T>(&bytes, &schema) {
				Ok(back) if back == v => {}
				Ok(back) => {
					if failures.len() < 3 {
						failures.push(format!("roundtrip-differs: wrote {:.200} read {:.200}", format!("{v:?}"), format!("{back:?}")));
					}
					continue;
				}
				Err(e) => {
					if failures.len() < 3 {
						failures.push(format!("deserialize: {e} | value: {:.300}", format!("{v:?}")));
					}
					continue;
				}
			}
			// every 16th value also through a container file and the reader API
			if i % 16 == 0 {
				let file = serde_avro_fast::object_container_file_encoding::write_all(
					&schema,
					serde_avro_fast::object_container_file_encoding::Compression::Null,
					Vec::new(),
					std::iter::once(&v),
				);
				match file {
					Ok(f) => {
						let back: Result<Vec<T>, _> = serde_avro_fast::object_container_file_encoding::Reader::from_slice(&f)
							.map_err(|e| e.to_string())
							.and_then(|mut r| r.deserialize::<T>().collect::<Result<Vec<T>, _>>().map_err(|e| e.to_string()));
						if back.as_ref().map_or(true, |b| b.len() != 1 || b[0] != v) && failures.len() < 3 {
							failures.push(format!("container-roundtrip: {:.200}", format!("{back:?}")));
							continue;
						}
					}
					Err(e) => {
						if failures.len() < 3 {
							failures.push(format!("container-write: {e}"));
						}
						continue;
					}
				}
			}
			ok += 1;
		}
		println!(
			"{{\"type\":{},\"schema\":{},\"deterministic\":{},\"values\":{},\"ok\":{},\"bytes\":{},\"failures\":{}}}",
			esc(identity),
			esc(schema.json()),
			deterministic,
			self.values_per_type,
			ok,
			bytes_total,
			serde_json::to_string(&failures).unwrap()
		);
	}
}

fn main() {
	let args: Vec<String> = std::env::args().collect();
	let seed: u64 = args.get(1).and_then(|s| s.parse().ok()).unwrap_or(1);
	let n: usize = args.get(2).and_then(|s| s.parse().ok()).unwrap_or(500);
	std::panic::set_hook(Box::new(|_| {}));
	let mut rt = Runtime {
		seed,
		values_per_type: n,
		names: vec![],
	};
	generated::run_all(&mut rt);
	println!("{{\"done\":true}}");
}
