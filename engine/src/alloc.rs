//! Counting global allocator: thread-local counters that a monitor arms around one API call.
//! Disabled (pass-through, no bookkeeping) unless armed, and compiled out under Miri / ASan
//! flavours (feature `noalloc_monitor`) so that it can hide nothing from them.

use std::alloc::{GlobalAlloc, Layout, System};
use std::cell::Cell;

pub struct Counting;

#[derive(Clone, Copy, Default, Debug)]
pub struct AllocStats {
	pub calls: u64,
	pub bytes: u64,
	pub largest: u64,
	pub live: i64,
	pub peak_live: i64,
}

thread_local! {
	static ARMED: Cell<bool> = const { Cell::new(false) };
	static STATS: Cell<AllocStats> = const { Cell::new(AllocStats { calls: 0, bytes: 0, largest: 0, live: 0, peak_live: 0 }) };
}

fn note_alloc(size: usize) {
	let _ = ARMED.try_with(|a| {
		if a.get() {
			let _ = STATS.try_with(|s| {
				let mut st = s.get();
				st.calls += 1;
				st.bytes += size as u64;
				st.largest = st.largest.max(size as u64);
				st.live += size as i64;
				st.peak_live = st.peak_live.max(st.live);
				s.set(st);
			});
		}
	});
}
fn note_free(size: usize) {
	let _ = ARMED.try_with(|a| {
		if a.get() {
			let _ = STATS.try_with(|s| {
				let mut st = s.get();
				st.live -= size as i64;
				s.set(st);
			});
		}
	});
}

// SAFETY: forwards to System; bookkeeping touches only thread-local Cells
unsafe impl GlobalAlloc for Counting {
	unsafe fn alloc(&self, l: Layout) -> *mut u8 {
		note_alloc(l.size());
		System.alloc(l)
	}
	unsafe fn dealloc(&self, p: *mut u8, l: Layout) {
		note_free(l.size());
		System.dealloc(p, l)
	}
	unsafe fn alloc_zeroed(&self, l: Layout) -> *mut u8 {
		note_alloc(l.size());
		System.alloc_zeroed(l)
	}
	unsafe fn realloc(&self, p: *mut u8, l: Layout, new_size: usize) -> *mut u8 {
		note_free(l.size());
		note_alloc(new_size);
		System.realloc(p, l, new_size)
	}
}

/// run `f` with allocation counting armed on this thread
pub fn measure<T>(f: impl FnOnce() -> T) -> (T, AllocStats) {
	STATS.with(|s| s.set(AllocStats::default()));
	ARMED.with(|a| a.set(true));
	let r = f();
	ARMED.with(|a| a.set(false));
	(r, STATS.with(|s| s.get()))
}
