//! C15 — container writer: valid file at every quiescent point; failed values leave none.
//! C16 — output independent of the sink's write schedule; sink errors surface (second half).

use crate::bridge::present::{Pres, Present};
use crate::gen::schema::{gen_schema, shape_hash, SchemaGenCfg};
use crate::gen::value::ValueGen;
use crate::io::{Fault, ScheduledSink, SharedSink};
use crate::props::c05::pick_write_cfg;
use crate::refavro::container::{self, Codec};
use crate::refavro::schema::*;
use crate::refavro::value::*;
use crate::rng::Rng;
use crate::run::{Ctx, PropSpec};
use crate::sut::*;
use crate::sutc::*;
use serde_avro_fast::ser::SerializerConfig;
use serde_json::json;

pub const SPEC15: PropSpec = PropSpec {
	id: "C15",
	level: "fault_enumeration",
	rule: "case = history of up to 40 writer calls over {serialize ok, serialize failing inside the value at a random depth (after bytes were emitted; record fields are presented in schema, reversed or shuffled order, so failures also happen while earlier fields sit in reordering buffers), serialize_all with a failing element in the middle, push_serialized, finish_block, inner()/inner_mut() inspection} ending with into_inner or drop, x approx_block_size in {0,1,small,default,large} x 6 codecs; the sink is a shared buffer (in half of the histories one that accepts only 1..40 bytes per write call, with or without its own write_vectored) inspected after EVERY call (= every point at which the process could stop): it must parse as a complete container file under the reference parser and decode to a prefix (in order) of the successfully serialized values; after finish_block / into_inner / drop to exactly all of them; failed values contribute nothing; conservation invariant through hook H4: ok_values == values_in_sink + n_elements_in_block. One fifth of the cases instead run serialize / finish_block histories on a sink that refuses 1-3 write calls outright (hard error, nothing accepted; each flush is one call there) and works again afterwards: the sink must stay a valid file and, once a later call has flushed successfully, hold every value whose call returned Ok exactly once and in order (a value whose own call returned the sink's error may be kept or not). distinct by hash(schema shape, history kinds, final file)",
	assumptions: &["the sync marker is fixed; which block boundaries the writer chooses is free"],
	cases: (50_000_000, 4_000_000_000),
	secs: (30, 900),
	required: &["quiescent_points_checked", "histories_with_sink_refusals", "refusal_quiescent_points_checked", "histories_on_short_writing_sink", "failed_values_in_history", "failure_as_first_value_of_block", "histories_ended_by_drop", "histories_ended_by_into_inner", "conservation_checked"],
	run_case: run_case15,
	once: None,
	panics_are_violations: true,
	cpu_kill_secs: 120,
	max_workers: 16,
};

fn corrupt_deep(v: &mut Val, rng: &mut Rng) {
	// make a late leaf unpresentable so that bytes were already emitted when the failure occurs
	fn last_leaf(v: &mut Val, rng: &mut Rng) {
		match v {
			Val::Record(xs) | Val::Array(xs) if !xs.is_empty() => {
				let k = if rng.coin() { xs.len() - 1 } else { rng.below(xs.len()) };
				last_leaf(&mut xs[k], rng)
			}
			Val::Map(es) if !es.is_empty() => {
				let k = es.len() - 1;
				last_leaf(&mut es[k].1, rng)
			}
			Val::Union(_, x) => last_leaf(x, rng),
			other => {
				*other = match other {
					Val::Str(_) => Val::Duration(1, 2, 3),
					_ => Val::Str("unpresentable here".into()),
				}
			}
		}
	}
	last_leaf(v, rng)
}

fn check_sink(
	ctx: &mut Ctx,
	case_seed: u64,
	rs: &RSchema,
	sink: &SharedSink,
	ok_vals: &[Val],
	must_have_all: bool,
	hook: Option<(u64, usize, bool)>,
	when: &str,
	describe: &dyn Fn(serde_json::Value) -> serde_json::Value,
) -> bool {
	let bytes = sink.buf.borrow().clone();
	ctx.count("quiescent_points_checked");
	let ocf = match container::parse(&bytes) {
		Ok(o) => o,
		Err((m, _)) => {
			ctx.violation(
				format!("sink-is-not-a-valid-file after={} {}", when.split(' ').next().unwrap_or(""), err_sig(&m)),
				case_seed,
				describe(json!({"after_call": when, "reference_parser": m, "sink_len": bytes.len(), "sink_tail": hex(&bytes[bytes.len().saturating_sub(80)..])})),
			);
			return false;
		}
	};
	let got = match container::decode_values(&ocf, rs) {
		Ok(g) => g,
		Err(m) => {
			ctx.violation(
				format!("sink-blocks-do-not-decode after={}", when.split(' ').next().unwrap_or("")),
				case_seed,
				describe(json!({"after_call": when, "reference_decoder": m})),
			);
			return false;
		}
	};
	let is_prefix = got.len() <= ok_vals.len() && got[..] == ok_vals[..got.len()];
	if !is_prefix {
		ctx.violation(
			format!("sink-values-are-not-a-prefix-of-serialized-values after={}", when.split(' ').next().unwrap_or("")),
			case_seed,
			describe(json!({"after_call": when, "in_sink": got.len(), "serialized_ok": ok_vals.len()})),
		);
		return false;
	}
	if must_have_all && got.len() != ok_vals.len() {
		ctx.violation(
			format!("values-missing-after={}", when.split(' ').next().unwrap_or("")),
			case_seed,
			describe(json!({"after_call": when, "in_sink": got.len(), "serialized_ok": ok_vals.len()})),
		);
		return false;
	}
	if let Some((n_in_block, _buffered, pending)) = hook {
		ctx.count("conservation_checked");
		if pending || got.len() as u64 + n_in_block != ok_vals.len() as u64 {
			ctx.violation(
				"conservation-broken (ok_values != values_in_sink + n_elements_in_block)",
				case_seed,
				describe(json!({"after_call": when, "in_sink": got.len(), "n_elements_in_block": n_in_block, "serialized_ok": ok_vals.len(), "finished_block_pending_flush": pending})),
			);
			return false;
		}
	}
	true
}


/// Does the decoded content fit the sequence of (value, optional) in order - as a prefix, or completely?
fn fits(dec: &[Val], seq: &[(Val, bool)], need_all: bool) -> bool {
	let close = |cur: &mut Vec<bool>| {
		for j in 0..seq.len() {
			if cur[j] && seq[j].1 {
				cur[j + 1] = true;
			}
		}
	};
	let mut cur = vec![false; seq.len() + 1];
	cur[0] = true;
	close(&mut cur);
	for d in dec {
		let mut next = vec![false; seq.len() + 1];
		for j in 0..seq.len() {
			if cur[j] && seq[j].0 == *d {
				next[j + 1] = true;
			}
		}
		cur = next;
		close(&mut cur);
	}
	if need_all {
		cur[seq.len()]
	} else {
		cur.iter().any(|&x| x)
	}
}

/// Histories on a sink that refuses some write calls outright (hard error, nothing accepted) and works again
/// afterwards. Every flush is one write call on this sink, so a refusal leaves the sink at a block boundary: the file
/// must stay valid, and once a later call has succeeded in flushing, every value whose call returned Ok must be there
/// exactly once, in order. A value whose own call returned the sink's error may or may not be kept (the property does
/// not say), but nothing else may be lost, duplicated or reordered.
fn refusal_case(ctx: &mut Ctx, case_seed: u64, rng: &mut Rng, rs: &RSchema, schema: &serde_avro_fast::Schema) {
	let mut wc = pick_write_cfg(rng);
	wc.approx_block_size = *rng.pick(&[Some(0), Some(1), Some(20), Some(60), Some(200), None]);
	let nops = 2 + rng.below(30);
	// the header is call 0; refuse 1-3 of the later calls
	// (never two calls in a row: in debug builds a writer whose final flush fails again while it is dropped panics on purpose)
	let mut refuse_at: Vec<u64> = Vec::new();
	for _ in 0..1 + rng.below(3) {
		let c = 1 + rng.below(nops) as u64;
		if refuse_at.iter().all(|&x: &u64| x.abs_diff(c) >= 2) {
			refuse_at.push(c);
		}
	}
	let sink = SharedSink::refusing(refuse_at.clone());
	let refusals = sink.refusals.clone();
	let mut scfg = SerializerConfig::new(schema);
	// record fields in schema, reversed or shuffled order, as struct or map: values go through the serializer's
	// reordering buffers too (also the ones that fail half-way)
	let pres = Pres::canonical_reordered(rng);
	let mut w = match build_writer(&mut scfg, &wc, sink.clone()) {
		Ok(w) => w,
		Err(_) => return,
	};
	let mut seq: Vec<(Val, bool)> = Vec::new();
	let mut hist: Vec<String> = Vec::new();
	let wcd = format!("codec={} level={:?} approx_block_size={:?} refuse_at_calls={refuse_at:?}", wc.codec.name(), wc.level, wc.approx_block_size);
	let check = |ctx: &mut Ctx, seq: &[(Val, bool)], hist: &[String], need_all: bool, when: &str| -> bool {
		let bytes = sink.buf.borrow().clone();
		ctx.count("refusal_quiescent_points_checked");
		let got = container::parse(&bytes).map_err(|e| e.0).and_then(|o| container::decode_values(&o, rs));
		let verdict = match &got {
			Err(m) => Some(format!("sink-is-not-a-valid-file {}", err_sig(m))),
			Ok(g) if !fits(g, seq, false) => Some("sink-values-are-not-a-prefix-of-serialized-values".to_owned()),
			Ok(g) if need_all && !fits(g, seq, true) => Some("values-missing-or-duplicated".to_owned()),
			_ => None,
		};
		if let Some(v) = verdict {
			ctx.violation(
				format!("after-sink-refusal: {v} after={}", when.split(' ').next().unwrap_or("")),
				case_seed,
				json!({"schema": rs.spell(None).compact(), "writer": wcd, "history": hist, "after_call": when, "in_sink": got.as_ref().map(|g| g.len()).map_err(|e| e.clone()),
					"values_whose_call_returned_ok": seq.iter().filter(|x| !x.1).count(), "values_whose_call_returned_the_sink_error": seq.iter().filter(|x| x.1).count()}),
			);
			return false;
		}
		true
	};
	for _ in 0..nops {
		let before = refusals.get();
		let mut vg = ValueGen::new(rs);
		vg.budget = *rng.pick(&[5, 30]);
		let (when, need_all) = if rng.chance(3, 4) {
			let v = vg.gen(rng);
			let r = w.serialize(Present::new(rs, &v, &pres));
			match r {
				Ok(()) => {
					seq.push((v, false));
					("serialize -> ok".to_owned(), false)
				}
				Err(e) => {
					if refusals.get() == before {
						ctx.violation(format!("conforming-value-rejected {}", err_sig(&e.to_string())), case_seed, json!({"schema": rs.spell(None).compact(), "history": hist, "error": e.to_string()}));
						discard_writer(w);
						return;
					}
					seq.push((v, true));
					("serialize -> sink error".to_owned(), false)
				}
			}
		} else {
			match w.finish_block() {
				Ok(()) => ("finish_block -> ok".to_owned(), true),
				Err(_) if refusals.get() > before => ("finish_block -> sink error".to_owned(), false),
				Err(e) => {
					ctx.violation("finish_block-failed", case_seed, json!({"history": hist, "error": e.to_string()}));
					discard_writer(w);
					return;
				}
			}
		};
		hist.push(when.clone());
		if !check(ctx, &seq, &hist, need_all, &when) {
			discard_writer(w);
			return;
		}
	}
	let before = refusals.get();
	match w.into_inner() {
		Ok(_) => {
			hist.push("into_inner -> ok".into());
			if !check(ctx, &seq, &hist, true, "into_inner") {
				return;
			}
		}
		Err(_) if refusals.get() > before => {
			hist.push("into_inner -> sink error".into());
		}
		Err(e) => {
			ctx.violation(format!("into_inner-failed {}", err_sig(&e.to_string())), case_seed, json!({"history": hist}));
			return;
		}
	}
	if refusals.get() > 0 {
		ctx.count("histories_with_sink_refusals");
	}
}

pub fn run_case15(ctx: &mut Ctx, case_seed: u64) {
	let mut rng = Rng::new(case_seed);
	let mut cfg = SchemaGenCfg::default();
	cfg.max_nodes = *rng.pick(&[4, 10, 20]);
	let mut rs = gen_schema(&mut rng, &cfg);
	// prefer schemas whose values have several parts (so that failures happen after bytes were emitted)
	for _ in 0..4 {
		if matches!(rs.nodes[0].kind, Kind::Record { ref fields, .. } if fields.len() >= 2) || matches!(rs.nodes[0].kind, Kind::Array(_)) {
			break;
		}
		rs = gen_schema(&mut rng, &cfg);
	}
	let (schema, _) = make_schema(&rs, SchemaVia::Builder, &mut rng);
	let schema = match schema {
		Ok(s) => s,
		Err(_) => return,
	};
	if rng.chance(1, 5) {
		refusal_case(ctx, case_seed, &mut rng, &rs, &schema);
		return;
	}
	let mut wc = pick_write_cfg(&mut rng);
	wc.approx_block_size = *rng.pick(&[Some(0), Some(1), Some(20), Some(60), Some(200), None, Some(1_000_000)]);
	// half of the histories go to a sink that takes only part of what it is offered (pipe / socket behaviour)
	let sink = if rng.coin() {
		SharedSink::default()
	} else {
		ctx.count("histories_on_short_writing_sink");
		let sched: Vec<usize> = match rng.below(4) {
			0 => vec![1],
			1 => vec![*rng.pick(&[2usize, 3, 5, 17])],
			_ => (0..1 + rng.below(8)).map(|_| 1 + rng.below(40)).collect(),
		};
		SharedSink::scheduled(sched, rng.coin())
	};
	let mut scfg = SerializerConfig::new(&schema);
	// record fields in schema, reversed or shuffled order, as struct or map: values go through the serializer's
	// reordering buffers too (also the ones that fail half-way)
	let pres = Pres::canonical_reordered(&mut rng);
	let mut hist: Vec<String> = Vec::new();
	let mut ok_vals: Vec<Val> = Vec::new();
	let nops = 1 + rng.below(40);
	let rs2 = rs.clone();
	let wcd = format!("codec={} level={:?} approx_block_size={:?}", wc.codec.name(), wc.level, wc.approx_block_size);
	let mut w = match build_writer(&mut scfg, &wc, sink.clone()) {
		Ok(w) => w,
		Err(e) => {
			ctx.violation(format!("build-failed {}", err_sig(&e)), case_seed, json!({"error": e}));
			return;
		}
	};
	macro_rules! describe {
		() => {
			|extra: serde_json::Value| json!({"schema": rs2.spell(None).compact(), "writer": wcd, "history": hist, "extra": extra})
		};
	}
	macro_rules! hook {
		($w:expr) => {{
			#[cfg(ten0_serde_avro_fast_verif)]
			{
				Some($w.verif_state())
			}
			#[cfg(not(ten0_serde_avro_fast_verif))]
			{
				None
			}
		}};
	}
	if !check_sink(ctx, case_seed, &rs, &sink, &ok_vals, true, hook!(w), "build", &describe!()) {
		discard_writer(w);
		return;
	}
	let mut last_was_flush = true;
	let mut failed_any = false;
	for _ in 0..nops {
		let mut vg = ValueGen::new(&rs);
		vg.budget = *rng.pick(&[5, 30]);
		let when;
		let mut must_all = false;
		match rng.below(10) {
			0..=3 => {
				let v = vg.gen(&mut rng);
				let r = w.serialize(Present::new(&rs, &v, &pres));
				when = format!("serialize -> {}", if r.is_ok() { "ok" } else { "err" });
				match r {
					Ok(()) => ok_vals.push(v),
					Err(e) => {
						hist.push(format!("serialize(valid value) FAILED: {e}"));
						ctx.violation(format!("conforming-value-rejected {}", err_sig(&e.to_string())), case_seed, describe!()(json!({"value": v.to_json()})));
						discard_writer(w);
						return;
					}
				}
			}
			4 | 5 => {
				let mut v = vg.gen(&mut rng);
				corrupt_deep(&mut v, &mut rng);
				let r = w.serialize(Present::new(&rs, &v, &pres));
				when = format!("serialize(unpresentable) -> {}", if r.is_ok() { "ok" } else { "err" });
				if r.is_ok() {
					// the corruption happened to be presentable (e.g. string for bytes): then it counts
					// as written only if it decodes - keep it simple and stop this history
					discard_writer(w);
					return;
				}
				failed_any = true;
				ctx.count("failed_values_in_history");
				if last_was_flush {
					ctx.count("failure_as_first_value_of_block");
				}
			}
			6 => {
				let n = 1 + rng.below(5);
				let mut vs: Vec<Val> = (0..n).map(|_| vg.gen(&mut rng)).collect();
				let fail_at = if rng.coin() { Some(rng.below(n)) } else { None };
				if let Some(k) = fail_at {
					corrupt_deep(&mut vs[k], &mut rng);
				}
				let r = w.serialize_all(vs.iter().map(|v| Present::new(&rs, v, &pres)));
				when = format!("serialize_all({n}, failing at {fail_at:?}) -> {}", if r.is_ok() { "ok" } else { "err" });
				match (fail_at, r.is_ok()) {
					(None, true) => ok_vals.extend(vs),
					(Some(k), false) => {
						ok_vals.extend(vs.into_iter().take(k));
						failed_any = true;
						ctx.count("failed_values_in_history");
					}
					_ => {
						discard_writer(w);
						return;
					}
				}
			}
			7 => {
				let n = rng.below(4);
				let vs: Vec<Val> = (0..n).map(|_| vg.gen(&mut rng)).collect();
				let mut c2 = SerializerConfig::new(&schema);
				let mut buf = Vec::new();
				for v in &vs {
					buf = match serde_avro_fast::to_datum(&Present::new(&rs, v, &pres), buf, &mut c2) {
						Ok(b) => b,
						Err(_) => {
							discard_writer(w);
							return;
						}
					};
				}
				let r = w.push_serialized(&buf, n as u64);
				when = format!("push_serialized({n} values, {} bytes) -> {}", buf.len(), if r.is_ok() { "ok" } else { "err" });
				if r.is_err() {
					ctx.violation("push_serialized-failed", case_seed, describe!()(json!({})));
					discard_writer(w);
					return;
				}
				ok_vals.extend(vs);
			}
			8 => {
				let r = w.finish_block();
				when = format!("finish_block -> {}", if r.is_ok() { "ok" } else { "err" });
				if r.is_err() {
					ctx.violation("finish_block-failed", case_seed, describe!()(json!({})));
					discard_writer(w);
					return;
				}
				must_all = true;
			}
			_ => {
				let l1 = w.inner().buf.borrow().len();
				let l2 = w.inner_mut().buf.borrow().len();
				when = format!("inner()/inner_mut() inspection ({l1}, {l2})");
			}
		}
		hist.push(when.clone());
		let h = hook!(w);
		last_was_flush = h.map_or(false, |(n, _, _)| n == 0);
		if !check_sink(ctx, case_seed, &rs, &sink, &ok_vals, must_all, h, &when, &describe!()) {
			discard_writer(w);
			return;
		}
	}
	// end of history
	if rng.coin() {
		drop(w);
		hist.push("drop".into());
		ctx.count("histories_ended_by_drop");
		if !check_sink(ctx, case_seed, &rs, &sink, &ok_vals, true, None, "drop", &describe!()) {
			return;
		}
	} else {
		match w.into_inner() {
			Ok(_) => {}
			Err(e) => {
				ctx.violation(format!("into_inner-failed {}", err_sig(&e.to_string())), case_seed, describe!()(json!({})));
				return;
			}
		}
		hist.push("into_inner".into());
		ctx.count("histories_ended_by_into_inner");
		if !check_sink(ctx, case_seed, &rs, &sink, &ok_vals, true, None, "into_inner", &describe!()) {
			return;
		}
	}
	let _ = failed_any;
	let kinds: String = hist.iter().map(|h| h.chars().next().unwrap_or('?')).collect();
	let fin = sink.buf.borrow();
	ctx.distinct_bytes(&[&shape_hash(&rs).to_le_bytes(), kinds.as_bytes(), &crate::rng::fnv(&fin).to_le_bytes()]);
	ctx.sample(|| json!({"schema": rs.spell(None).compact(), "writer": wcd, "history": hist, "final_file_len": fin.len(), "values": ok_vals.len()}));
}

// ------------------------------------------------------------------------------------- C16

pub const SPEC16: PropSpec = PropSpec {
	id: "C16",
	level: "fault_enumeration",
	rule: "case = small file (schema, values, op pattern, codec, approx_block_size) written first to Vec<u8> (reference bytes, same sync marker), then to sinks accepting k bytes per write call for k in {1,2,3,7,16,17,19,4096} and random k per call, in two variants (own write_vectored spanning slices / std's default first-slice-only), then with `Interrupted` injected at EVERY write-call index of one schedule (exhaustive over the call indices of that run), then with a hard error and with Ok(0) injected at every call index: bytes must equal the reference bytes; after a hard error / Ok(0) some writer call (build, serialize, finish_block, into_inner) must return Err. distinct by hash(file bytes, schedule, fault index)",
	assumptions: &["in debug builds Drop deliberately panics when its final flush fails: after an injected hard fault the writer is not dropped and only the failing call's Result is judged"],
	cases: (50_000_000, 4_000_000_000),
	secs: (30, 900),
	required: &["schedules_equal", "interrupted_points_enumerated", "hard_error_points_enumerated", "zero_write_points_enumerated", "spanning_vectored_writes", "partial_write_inside_header", "partial_write_inside_sync"],
	run_case: run_case16,
	once: None,
	panics_are_violations: true,
	cpu_kill_secs: 120,
	max_workers: 16,
};

/// run the ops against a sink; returns Err(op index, message) for the first failing call
fn drive<W: std::io::Write>(
	schema: &serde_avro_fast::Schema,
	rs: &RSchema,
	vals: &[Val],
	ops: &[Op],
	wc: &WriteCfg,
	sink: W,
) -> Result<W, (String, Option<W>)> {
	let mut cfg = SerializerConfig::new(schema);
	let pres = Pres::canonical();
	let mut w = match build_writer(&mut cfg, wc, sink) {
		Ok(w) => w,
		Err(e) => return Err((format!("build: {e}"), None)),
	};
	for op in ops {
		let r = match op {
			Op::Serialize(i) => w.serialize(Present::new(rs, &vals[*i], &pres)).map_err(|e| format!("serialize: {e}")),
			Op::SerializeAll(i, j) => w
				.serialize_all(vals[*i..*j].iter().map(|v| Present::new(rs, v, &pres)))
				.map_err(|e| format!("serialize_all: {e}")),
			Op::FinishBlock => w.finish_block().map_err(|e| format!("finish_block: {e}")),
			// (C16 compares byte streams of successful histories: the failing-value op belongs to C05 / C06 / C15)
			Op::SerializeUnpresentable(_) => Ok(()),
			Op::Push(i, j) => {
				let mut c2 = SerializerConfig::new(schema);
				let mut buf = Vec::new();
				for v in &vals[*i..*j] {
					buf = serde_avro_fast::to_datum(&Present::new(rs, v, &pres), buf, &mut c2).unwrap_or_default();
				}
				w.push_serialized(&buf, (*j - *i) as u64).map_err(|e| format!("push_serialized: {e}"))
			}
		};
		if let Err(e) = r {
			discard_writer(w);
			return Err((e, None));
		}
	}
	match w.into_inner() {
		Ok(s) => Ok(s),
		Err(e) => Err((format!("into_inner: {e}"), None)),
	}
}

pub fn run_case16(ctx: &mut Ctx, case_seed: u64) {
	let mut rng = Rng::new(case_seed);
	let mut cfg = SchemaGenCfg::default();
	cfg.max_nodes = *rng.pick(&[1, 6, 12]);
	let rs = gen_schema(&mut rng, &cfg);
	let (schema, _) = make_schema(&rs, SchemaVia::Builder, &mut rng);
	let schema = match schema {
		Ok(s) => s,
		Err(_) => return,
	};
	let n = rng.below(12);
	let vals: Vec<Val> = (0..n)
		.map(|_| {
			let mut vg = ValueGen::new(&rs);
			vg.budget = 20;
			vg.gen(&mut rng)
		})
		.collect();
	let ops = op_pattern(&mut rng, n);
	let mut wc = pick_write_cfg(&mut rng);
	wc.codec = *rng.pick(&[Codec::Null, Codec::Null, Codec::Deflate, Codec::Snappy, Codec::Zstandard, Codec::Bzip2, Codec::Xz]);
	wc.approx_block_size = *rng.pick(&[Some(0), Some(1), Some(30), Some(150), None]);
	let reference = match drive(&schema, &rs, &vals, &ops, &wc, Vec::new()) {
		Ok(b) => b,
		Err(_) => return,
	};
	let ocf = container::parse(&reference).ok();
	let describe = |extra: serde_json::Value| {
		json!({"schema": rs.spell(None).compact(), "n_values": n, "ops": format!("{ops:?}").chars().take(400).collect::<String>(), "codec": wc.codec.name(), "approx_block_size": wc.approx_block_size, "reference_len": reference.len(), "extra": extra})
	};
	// ---- schedules
	let mut schedules: Vec<Vec<usize>> = [1usize, 2, 3, 7, 16, 17, 19, 4096].iter().map(|&k| vec![k]).collect();
	for _ in 0..3 {
		let m = 1 + rng.below(6);
		schedules.push((0..m).map(|_| 1 + rng.below(40)).collect());
	}
	let mut calls_of: Vec<(Vec<usize>, bool, u64)> = Vec::new();
	for sched in &schedules {
		for native in [true, false] {
			let sink = ScheduledSink::new(sched.clone(), native);
			match drive(&schema, &rs, &vals, &ops, &wc, sink) {
				Ok(s) => {
					if s.out != reference {
						let at = s.out.iter().zip(&reference).position(|(a, b)| a != b).unwrap_or(s.out.len().min(reference.len()));
						ctx.violation(
							format!("bytes-depend-on-write-schedule vectored={native} {}", if s.out.len() > reference.len() { "duplicated" } else if s.out.len() < reference.len() { "lost" } else { "altered" }),
							case_seed,
							describe(json!({"schedule": sched, "native_write_vectored": native, "first_difference_at": at, "got_len": s.out.len(),
								"reference_around": hex(&reference[at.saturating_sub(8)..(at + 24).min(reference.len())]), "got_around": hex(&s.out[at.saturating_sub(8).min(s.out.len())..(at + 24).min(s.out.len())])})),
						);
						return;
					}
					ctx.count("schedules_equal");
					ctx.add("spanning_vectored_writes", s.spanning_writes);
					// where did partial writes stop? (evidence that boundaries inside header / sync were hit)
					if let Some(o) = &ocf {
						if sched.iter().any(|&k| k < o.header_len) {
							ctx.count("partial_write_inside_header");
						}
						if !o.blocks.is_empty() && sched.iter().any(|&k| k < 16) {
							ctx.count("partial_write_inside_sync");
						}
					}
					calls_of.push((sched.clone(), native, s.calls));
					ctx.distinct_bytes(&[&crate::rng::fnv(&reference).to_le_bytes(), format!("{sched:?}{native}").as_bytes()]);
				}
				Err((e, _)) => {
					ctx.violation(
						format!("healthy-partial-sink-makes-writer-fail {}", err_sig(&e)),
						case_seed,
						describe(json!({"schedule": sched, "native_write_vectored": native, "error": e})),
					);
					return;
				}
			}
		}
	}
	// ---- fault injection at every call index of one schedule
	let (sched, native, ncalls) = match calls_of.iter().filter(|c| c.2 <= 400).max_by_key(|c| c.2) {
		Some(c) => c.clone(),
		None => return,
	};
	for i in 0..ncalls {
		// Interrupted: must be retried transparently
		let mut sink = ScheduledSink::new(sched.clone(), native);
		sink.fault_at = Some(i);
		sink.fault = Fault::Interrupted;
		match drive(&schema, &rs, &vals, &ops, &wc, sink) {
			Ok(s) if s.out == reference && s.faults_fired == 1 => ctx.count("interrupted_points_enumerated"),
			Ok(s) => {
				ctx.violation(
					"interrupted-write-changes-output",
					case_seed,
					describe(json!({"schedule": sched, "native_write_vectored": native, "interrupted_at_call": i, "got_len": s.out.len(), "faults_fired": s.faults_fired})),
				);
				return;
			}
			Err((e, _)) => {
				ctx.violation(
					format!("interrupted-write-not-retried {}", e.split(':').next().unwrap_or("")),
					case_seed,
					describe(json!({"schedule": sched, "native_write_vectored": native, "interrupted_at_call": i, "error": e})),
				);
				return;
			}
		}
		for (fault, name) in [(Fault::Hard, "hard_error"), (Fault::Zero, "zero_write")] {
			let mut sink = ScheduledSink::new(sched.clone(), native);
			sink.fault_at = Some(i);
			sink.fault = fault;
			match drive(&schema, &rs, &vals, &ops, &wc, sink) {
				Err(_) => ctx.count(&format!("{name}_points_enumerated")),
				Ok(s) => {
					ctx.violation(
						format!("sink-{name}-swallowed (every writer call returned Ok)"),
						case_seed,
						describe(json!({"schedule": sched, "native_write_vectored": native, "fault_at_call": i, "faults_fired": s.faults_fired, "got_len": s.out.len()})),
					);
					return;
				}
			}
		}
	}
	ctx.sample(|| describe(json!({"schedules": schedules.len() * 2, "fault_points": ncalls})));
}
