pub mod c01;
pub mod fixtures;

use crate::run::PropSpec;

pub const ALL: &[&PropSpec] = &[&c01::SPEC];
