//! Boundary-biased conforming values for a reference schema.

use crate::gen::schema::min_depths;
use crate::refavro::schema::*;
use crate::refavro::value::Val;
use crate::rng::Rng;

pub struct ValueGen<'a> {
	pub s: &'a RSchema,
	pub min_depth: Vec<usize>,
	pub max_depth: usize,
	pub budget: isize,
	/// allow 100 KB strings
	pub allow_huge: bool,
}

pub const MANTISSA_96_MAX: i128 = (1i128 << 96) - 1;

pub fn pow10(n: u32) -> i128 {
	10i128.pow(n)
}

impl<'a> ValueGen<'a> {
	pub fn new(s: &'a RSchema) -> Self {
		ValueGen {
			s,
			min_depth: min_depths(s),
			max_depth: 10,
			budget: 200,
			allow_huge: false,
		}
	}

	pub fn gen(&mut self, rng: &mut Rng) -> Val {
		self.node(0, 0, rng)
	}
	pub fn gen_at(&mut self, id: Id, rng: &mut Rng) -> Val {
		self.node(id, 0, rng)
	}

	pub fn interesting_i32(rng: &mut Rng) -> i32 {
		match rng.below(8) {
			0 => *rng.pick(&[0, 1, -1, 63, 64, -64, -65, i32::MAX, i32::MIN, i32::MAX - 1, i32::MIN + 1]),
			1 => {
				let k = 7 * (1 + rng.below(4)) as u32 - 1;
				let base = 1i64 << k;
				let v = base + rng.range(-1, 1);
				let v = if rng.coin() { v } else { -v };
				v.clamp(i32::MIN as i64, i32::MAX as i64) as i32
			}
			2 => rng.range(-200, 200) as i32,
			_ => rng.next_u32() as i32,
		}
	}
	pub fn interesting_i64(rng: &mut Rng) -> i64 {
		match rng.below(8) {
			0 => *rng.pick(&[
				0,
				1,
				-1,
				63,
				64,
				-64,
				-65,
				i64::MAX,
				i64::MIN,
				i64::MAX - 1,
				i64::MIN + 1,
				i32::MAX as i64,
				i32::MIN as i64,
				i32::MAX as i64 + 1,
				i32::MIN as i64 - 1,
			]),
			1 => {
				let k = 7 * (1 + rng.below(9)) as u32 - 1;
				let base = 1i128 << k;
				let v = base + rng.range(-1, 1) as i128;
				let v = if rng.coin() { v } else { -v };
				v.clamp(i64::MIN as i128, i64::MAX as i128) as i64
			}
			2 => rng.range(-200, 200),
			_ => rng.next_u64() as i64,
		}
	}
	pub fn interesting_f32(rng: &mut Rng) -> u32 {
		match rng.below(6) {
			0 => *rng.pick(&[
				0u32,
				0x8000_0000,
				0x7f80_0000,
				0xff80_0000,
				0x7fc0_0000,
				0x7fa0_0001,
				0xffc1_2345,
				1,
				0x007f_ffff,
				0x3f80_0000,
				0x7f7f_ffff,
			]),
			_ => rng.next_u32(),
		}
	}
	pub fn interesting_f64(rng: &mut Rng) -> u64 {
		match rng.below(6) {
			0 => *rng.pick(&[
				0u64,
				0x8000_0000_0000_0000,
				0x7ff0_0000_0000_0000,
				0xfff0_0000_0000_0000,
				0x7ff8_0000_0000_0000,
				0x7ff4_0000_0000_0001,
				0xfff8_1234_5678_9abc,
				1,
				0x000f_ffff_ffff_ffff,
				0x3ff0_0000_0000_0000,
			]),
			_ => rng.next_u64(),
		}
	}
	pub fn string(&self, rng: &mut Rng) -> String {
		match rng.below(10) {
			0 => String::new(),
			1 => "é∂☃𝄞 multi-byte".to_owned(),
			2 => "\u{0}\u{7f}\"\\\n".to_owned(),
			3 if self.allow_huge => "x☃".repeat(25_000 + rng.below(10_000)),
			3 => "y".repeat(63 + rng.below(3)),
			4 => "z".repeat(8190 + rng.below(6)),
			_ => {
				let n = rng.below(12);
				(0..n)
					.map(|_| *rng.pick(&['a', 'b', 'Z', '0', ' ', 'é', '☃', '_', '.', '𝄞']))
					.collect()
			}
		}
	}
	pub fn bytes(&self, rng: &mut Rng) -> Vec<u8> {
		match rng.below(8) {
			0 => vec![],
			1 => vec![0xFF, 0xFE, 0x80, 0x00],
			2 => {
				let n = 63 + rng.below(3);
				rng.bytes(n)
			}
			3 => {
				let n = 8190 + rng.below(6);
				rng.bytes(n)
			}
			_ => {
				let n = rng.below(16);
				rng.bytes(n)
			}
		}
	}
	/// unscaled decimal within the 96-bit mantissa both signs; biased to byte boundaries
	pub fn decimal_unscaled(rng: &mut Rng, max_abs: i128) -> i128 {
		let v: i128 = match rng.below(8) {
			0 => 0,
			1 => *rng.pick(&[1, -1, 127, 128, -128, -129, 255, 256, 32767, 32768, -32768, -32769]),
			2 => {
				// around a byte boundary: value whose top byte has the high bit set
				let k = 8 * (1 + rng.below(12)) as u32;
				let base = 1i128 << (k - 1);
				let d = rng.range(-2, 2) as i128;
				if rng.coin() {
					base + d
				} else {
					-(base + d)
				}
			}
			3 => max_abs,
			4 => -max_abs,
			5 => rng.range(-100_000, 100_000) as i128,
			_ => {
				let hi = rng.next_u64() as u128;
				let lo = rng.next_u64() as u128;
				let m = ((hi << 64) | lo) & (MANTISSA_96_MAX as u128);
				let m = m as i128;
				if rng.coin() {
					m
				} else {
					-m
				}
			}
		};
		v.clamp(-max_abs, max_abs)
	}

	fn node(&mut self, id: Id, depth: usize, rng: &mut Rng) -> Val {
		self.budget -= 1;
		let tight = depth >= self.max_depth || self.budget <= 0;
		match self.s.eff(id) {
			Eff::Null => Val::Null,
			Eff::Boolean => Val::Bool(rng.coin()),
			Eff::Int => Val::Int(Self::interesting_i32(rng)),
			Eff::Long => Val::Long(Self::interesting_i64(rng)),
			Eff::Float => Val::Float(Self::interesting_f32(rng)),
			Eff::Double => Val::Double(Self::interesting_f64(rng)),
			Eff::Bytes => Val::Bytes(self.bytes(rng)),
			Eff::String => {
				if matches!(self.s.node(id).logical, Some(Logical::Uuid)) && rng.coin() {
					Val::Str("123e4567-e89b-12d3-a456-426614174000".into())
				} else {
					Val::Str(self.string(rng))
				}
			}
			Eff::Fixed(n) => Val::Fixed(rng.bytes(n)),
			Eff::Enum => match &self.s.node(id).kind {
				Kind::Enum { symbols, .. } => {
					// ends of the range as often as the middle
					match rng.below(4) {
						0 => Val::Enum(symbols.len() - 1),
						1 => Val::Enum(symbols.len().min(65) - 1),
						_ => Val::Enum(rng.below(symbols.len())),
					}
				}
				_ => unreachable!(),
			},
			Eff::Array(item) => {
				let n = if tight {
					0
				} else {
					*rng.pick(&[0usize, 0, 1, 1, 2, 3, 5, 17])
				};
				Val::Array((0..n).map(|_| self.node(item, depth + 1, rng)).collect())
			}
			Eff::Map(item) => {
				let n = if tight { 0 } else { *rng.pick(&[0usize, 0, 1, 1, 2, 3, 9]) };
				let mut keys: Vec<String> = Vec::new();
				for i in 0..n {
					let k = match rng.below(5) {
						0 => format!("k{i}"),
						1 => format!("é{i}☃"),
						2 if i == 0 => String::new(),
						_ => format!("key_{}_{}", i, rng.below(1000)),
					};
					keys.push(k);
				}
				Val::Map(keys.into_iter().map(|k| (k, self.node(item, depth + 1, rng))).collect())
			}
			Eff::Union(branches) => {
				let i = if tight {
					// pick the branch that terminates fastest
					let mut best = 0;
					for (k, &b) in branches.iter().enumerate() {
						if self.min_depth[b] < self.min_depth[branches[best]] {
							best = k;
						}
					}
					best
				} else if branches.len() > 60 && rng.coin() {
					// the ends of the range and the place where the index needs a second byte
					*rng.pick(&[branches.len() - 1, 63.min(branches.len() - 1), 64.min(branches.len() - 1), 65.min(branches.len() - 1), 0])
				} else {
					rng.below(branches.len())
				};
				Val::Union(i, Box::new(self.node(branches[i], depth + 1, rng)))
			}
			Eff::Record => match &self.s.node(id).kind {
				Kind::Record { fields, .. } => {
					let ids: Vec<Id> = fields.iter().map(|f| f.1).collect();
					Val::Record(ids.into_iter().map(|f| self.node(f, depth + 1, rng)).collect())
				}
				_ => unreachable!(),
			},
			Eff::DecimalBytes { scale } => {
				let _ = scale;
				Val::Decimal(Self::decimal_unscaled(rng, MANTISSA_96_MAX))
			}
			Eff::DecimalFixed { size, scale } => {
				let _ = scale;
				// largest magnitude that fits `size` bytes two's complement, capped by 96 bits
				let max_abs = if size == 0 {
					0
				} else if size >= 13 {
					MANTISSA_96_MAX
				} else {
					((1i128 << (8 * size as u32 - 1)) - 1).min(MANTISSA_96_MAX)
				};
				let mut v = Self::decimal_unscaled(rng, max_abs);
				// also use the most negative value that fits (-(2^(8n-1))) sometimes
				if size > 0 && size < 13 && rng.chance(1, 10) {
					v = -(1i128 << (8 * size as u32 - 1));
				}
				Val::Decimal(v)
			}
			Eff::BigDecimal => {
				let scale = *rng.pick(&[0u32, 0, 1, 2, 7, 28]);
				Val::BigDecimal(Self::decimal_unscaled(rng, MANTISSA_96_MAX), scale)
			}
			Eff::Duration => {
				let mut p = || match rng.below(4) {
					0 => 0u32,
					1 => u32::MAX,
					2 => 1 << 31,
					_ => rng.next_u32(),
				};
				Val::Duration(p(), p(), p())
			}
		}
	}
}

/// Number of nested array/map/union/record levels on the deepest path of a value
/// (what serde_avro_fast documents as its depth limit)
pub fn depth_cost(s: &RSchema, id: Id, v: &Val) -> usize {
	match (s.eff(id), v) {
		(Eff::Array(item), Val::Array(xs)) => 1 + xs.iter().map(|x| depth_cost(s, item, x)).max().unwrap_or(0),
		(Eff::Map(item), Val::Map(xs)) => 1 + xs.iter().map(|(_, x)| depth_cost(s, item, x)).max().unwrap_or(0),
		(Eff::Union(b), Val::Union(i, x)) => 1 + depth_cost(s, b[*i], x),
		(Eff::Record, Val::Record(xs)) => match &s.node(id).kind {
			Kind::Record { fields, .. } => {
				1 + fields
					.iter()
					.zip(xs)
					.map(|(f, x)| depth_cost(s, f.1, x))
					.max()
					.unwrap_or(0)
			}
			_ => 0,
		},
		_ => 0,
	}
}
