//! Random schema ASTs that are valid per the Avro specification.

use crate::refavro::schema::*;
use crate::rng::Rng;
use std::collections::HashSet;

#[derive(Clone, Debug)]
pub struct SchemaGenCfg {
	pub max_nodes: usize,
	pub max_depth: usize,
	pub allow_logical: bool,
	pub allow_namespaces: bool,
	pub allow_recursion: bool,
	/// decimals with fixed size > 16 (outside documented limits)
	pub allow_big_fixed_decimal: bool,
	/// unknown logical types / annotations that do not apply
	pub allow_inert_logical: bool,
	/// duration inside unions (cannot be selected by name when serializing)
	pub allow_duration_in_union: bool,
}
impl Default for SchemaGenCfg {
	fn default() -> Self {
		SchemaGenCfg {
			max_nodes: 24,
			max_depth: 5,
			allow_logical: true,
			allow_namespaces: true,
			allow_recursion: true,
			allow_big_fixed_decimal: false,
			allow_inert_logical: true,
			allow_duration_in_union: true,
		}
	}
}

const NAMESPACES: &[&str] = &["a", "a.b", "com.acme", "x_1.y2", "b"];
const SHORTS: &[&str] = &["R", "S", "Node", "Status", "E", "F", "Item", "T_1", "Rec"];
const FIELDS: &[&str] = &[
	"a", "b", "c", "id", "next", "value", "items", "m", "f_1", "name", "kind", "left", "right", "x", "y", "z", "data",
	"ts",
];
const SYMBOLS: &[&str] = &["A", "B", "C", "RED", "GREEN", "BLUE", "Null", "X_1", "clubs", "spades", "a", "b"];

struct Gen<'a> {
	rng: &'a mut Rng,
	cfg: &'a SchemaGenCfg,
	nodes: Vec<Node>,
	used_fullnames: HashSet<String>,
	/// named nodes whose definition is complete: (id, namespace)
	finished: Vec<Id>,
	/// records under construction (candidates for recursion)
	open_records: Vec<Id>,
	budget: isize,
}

/// category used for the "no two branches of the same unnamed type" union rule
#[derive(PartialEq, Eq, Hash, Clone, Copy, Debug)]
enum Cat {
	Null,
	Boolean,
	Int,
	Long,
	Float,
	Double,
	Bytes,
	String,
	Array,
	Map,
	Named,
	/// serde_avro_fast names every duration branch `Duration`: at most one per union is generated
	/// (two of them are probed separately in C01 as a known finding)
	Duration,
}

pub fn gen_schema(rng: &mut Rng, cfg: &SchemaGenCfg) -> RSchema {
	let mut g = Gen {
		rng,
		cfg,
		nodes: Vec::new(),
		used_fullnames: HashSet::new(),
		finished: Vec::new(),
		open_records: Vec::new(),
		budget: 0,
	};
	g.budget = 1 + g.rng.below(cfg.max_nodes) as isize;
	let root = g.node(0, None, false, false);
	debug_assert_eq!(root, 0);
	RSchema { nodes: g.nodes }
}

impl<'a> Gen<'a> {
	fn ns_of(&self, id: Id) -> Option<String> {
		match &self.nodes[id].kind {
			Kind::Record { name, .. } | Kind::Enum { name, .. } | Kind::Fixed { name, .. } => {
				split_fullname(name).0.map(|s| s.to_owned())
			}
			_ => None,
		}
	}
	fn fresh_name(&mut self, enclosing: Option<&str>) -> String {
		let ns: Option<String> = if !self.cfg.allow_namespaces {
			None
		} else {
			match self.rng.below(5) {
				0 | 1 => enclosing.map(|s| s.to_owned()),
				2 => None,
				_ => Some((*self.rng.pick(NAMESPACES)).to_owned()),
			}
		};
		let short = *self.rng.pick(SHORTS);
		let mut k = 0;
		loop {
			let s = if k == 0 {
				short.to_owned()
			} else {
				format!("{short}{k}")
			};
			let full = match &ns {
				Some(n) => format!("{n}.{s}"),
				None => s,
			};
			if self.used_fullnames.insert(full.clone()) {
				return full;
			}
			k += 1;
		}
	}
	/// A null-namespace type defined inside a namespaced context can be spelled only at that
	/// place (with "namespace": ""), never referred to from it: such nodes are not offered for reuse.
	fn finish(&mut self, id: Id, enclosing: Option<&str>) {
		if self.ns_of(id).is_some() || enclosing.is_none() {
			self.finished.push(id);
		}
	}
	fn push(&mut self, kind: Kind, logical: Option<Logical>) -> Id {
		self.nodes.push(Node { kind, logical });
		self.nodes.len() - 1
	}

	fn cat_of(&self, id: Id) -> Cat {
		match &self.nodes[id].kind {
			Kind::Null => Cat::Null,
			Kind::Boolean => Cat::Boolean,
			Kind::Int => Cat::Int,
			Kind::Long => Cat::Long,
			Kind::Float => Cat::Float,
			Kind::Double => Cat::Double,
			Kind::Bytes => Cat::Bytes,
			Kind::String => Cat::String,
			Kind::Array(_) => Cat::Array,
			Kind::Map(_) => Cat::Map,
			Kind::Union(_) => unreachable!(),
			Kind::Fixed { size: 12, .. } if matches!(self.nodes[id].logical, Some(Logical::Duration)) => Cat::Duration,
			_ => Cat::Named,
		}
	}

	/// Generate a node (appending to the arena) and return its id.
	/// `in_union`: nested unions are not allowed; `under_indirection`: true when there is an
	/// array/map/union between here and the nearest enclosing record (recursion is then legal).
	fn node(&mut self, depth: usize, enclosing: Option<&str>, in_union: bool, under_indirection: bool) -> Id {
		self.budget -= 1;
		let leaf_only = depth >= self.cfg.max_depth || self.budget <= 0;
		// reference to an existing named type?
		if depth > 0 && self.rng.chance(1, 6) {
			let mut cands: Vec<Id> = Vec::new();
			for &f in &self.finished {
				let ns = self.ns_of(f);
				if ns.is_some() || enclosing.is_none() {
					cands.push(f);
				}
			}
			if self.cfg.allow_recursion && under_indirection {
				for &r in &self.open_records {
					let ns = self.ns_of(r);
					if ns.is_some() || enclosing.is_none() {
						cands.push(r);
					}
				}
			}
			if !cands.is_empty() {
				return *self.rng.pick(&cands);
			}
		}
		let choice = if leaf_only {
			self.rng.below(10)
		} else {
			self.rng.below(16)
		};
		match choice {
			0 => self.push(Kind::Null, None),
			1 => self.push(Kind::Boolean, None),
			2 => {
				let l = self.logical_for(&[Logical::Date, Logical::TimeMillis]);
				self.push(Kind::Int, l)
			}
			3 => {
				let l = self.logical_for(&[Logical::TimeMicros, Logical::TimestampMillis, Logical::TimestampMicros]);
				self.push(Kind::Long, l)
			}
			4 => self.push(Kind::Float, None),
			5 => self.push(Kind::Double, None),
			6 => {
				let l = if self.cfg.allow_logical && self.rng.chance(1, 3) {
					if self.rng.chance(1, 4) {
						Some(Logical::BigDecimal)
					} else {
						Some(self.decimal())
					}
				} else {
					None
				};
				self.push(Kind::Bytes, l)
			}
			7 => {
				let l = self.logical_for(&[Logical::Uuid]);
				self.push(Kind::String, l)
			}
			8 => {
				// enum
				let name = self.fresh_name(enclosing);
				let n = 1 + self.rng.below(5);
				let mut syms: Vec<String> = Vec::new();
				let mut pool: Vec<&str> = SYMBOLS.to_vec();
				self.rng.shuffle(&mut pool);
				for s in pool.into_iter().take(n) {
					syms.push(s.to_owned());
				}
				// now and then an enum whose indices need a second varint byte (zigzag: from 64 on) or sit at that edge
				// (not under Miri: interpreting the handling of 200 symbols costs it seconds per schema)
				if !cfg!(miri) && self.rng.chance(1, 12) {
					let total = *self.rng.pick(&[63usize, 64, 65, 100, 128, 129, 200]);
					let mut k = 0;
					while syms.len() < total {
						syms.push(format!("G{k}"));
						k += 1;
					}
				}
				let l = self.inert_logical();
				let id = self.push(Kind::Enum { name, symbols: syms }, l);
				self.finish(id, enclosing);
				id
			}
			9 => {
				// fixed
				let name = self.fresh_name(enclosing);
				let (size, l) = if self.cfg.allow_logical && self.rng.chance(1, 3) {
					if self.rng.chance(1, 3) && (!in_union || self.cfg.allow_duration_in_union) {
						(12, Some(Logical::Duration))
					} else {
						let size = if self.cfg.allow_big_fixed_decimal && self.rng.chance(1, 8) {
							17 + self.rng.below(4)
						} else {
							1 + self.rng.below(16)
						};
						(size, Some(self.decimal()))
					}
				} else {
					(*self.rng.pick(&[0usize, 1, 2, 4, 12, 16, 17, 33]), self.inert_logical())
				};
				let id = self.push(Kind::Fixed { name, size }, l);
				self.finish(id, enclosing);
				id
			}
			10 | 11 => {
				let id = self.push(Kind::Array(usize::MAX), None);
				let c = self.node(depth + 1, enclosing, false, true);
				self.nodes[id].kind = Kind::Array(c);
				if self.cfg.allow_inert_logical && self.rng.chance(1, 12) {
					self.nodes[id].logical = Some(Logical::Unknown("custom-array".into()));
				}
				id
			}
			12 => {
				let id = self.push(Kind::Map(usize::MAX), None);
				let c = self.node(depth + 1, enclosing, false, true);
				self.nodes[id].kind = Kind::Map(c);
				id
			}
			13 if !in_union => {
				let id = self.push(Kind::Union(vec![]), None);
				let n = 1 + self.rng.below(5);
				let mut cats: HashSet<Cat> = HashSet::new();
				let mut named: HashSet<Id> = HashSet::new();
				let mut branches = Vec::new();
				// make sure a terminating branch comes first or somewhere: add null/primitive
				let start_len = self.nodes.len();
				let _ = start_len;
				for k in 0..n {
					let mut tries = 0;
					loop {
						tries += 1;
						if tries > 6 {
							break;
						}
						let mark = self.nodes.len();
						let fin_mark = self.finished.len();
						let names_before = self.used_fullnames.clone();
						let budget_before = self.budget;
						let c = if k == 0 && self.rng.chance(2, 3) {
							self.push(Kind::Null, None)
						} else {
							self.node(depth + 1, enclosing, true, true)
						};
						let is_new = c >= mark;
						let cat = self.cat_of(c);
						let ok = if cat == Cat::Named {
							named.insert(c)
						} else {
							cats.insert(cat)
						};
						if ok {
							branches.push(c);
							break;
						} else if is_new {
							// roll back the rejected subtree
							self.nodes.truncate(mark);
							self.finished.truncate(fin_mark);
							self.used_fullnames = names_before;
							self.budget = budget_before;
						}
					}
				}
				if branches.is_empty() {
					branches.push(self.push(Kind::Null, None));
				}
				// guarantee a branch that terminates: if every branch is a reference to an open
				// record, add a primitive
				let all_open = branches.iter().all(|b| self.open_records.contains(b));
				if all_open {
					let c = self.push(Kind::Null, None);
					branches.insert(0, c);
				}
				// now and then a union whose branch indices need a second varint byte (zigzag: from 64 on) or sit at that
				// edge: padded with small named types (any number of those may share a union)
				if !cfg!(miri) && self.rng.chance(1, 25) {
					let total = *self.rng.pick(&[63usize, 64, 65, 66, 70, 130]);
					let mut k = 0;
					while branches.len() < total {
						let name = format!("pad.U{id}x{k}");
						k += 1;
						if !self.used_fullnames.insert(name.clone()) {
							continue;
						}
						let c = if k % 2 == 0 {
							self.push(Kind::Fixed { name, size: 1 + k % 3 }, None)
						} else {
							self.push(Kind::Enum { name, symbols: vec!["P".into(), "Q".into()] }, None)
						};
						self.finish(c, enclosing);
						branches.push(c);
					}
				}
				if self.rng.chance(1, 3) {
					self.rng.shuffle(&mut branches);
				}
				self.nodes[id].kind = Kind::Union(branches);
				id
			}
			_ => {
				// record
				let name = self.fresh_name(enclosing);
				let rns = split_fullname(&name).0.map(|s| s.to_owned());
				let id = self.push(
					Kind::Record {
						name: name.clone(),
						fields: vec![],
					},
					None,
				);
				self.open_records.push(id);
				let nf = self.rng.below(6);
				let mut fnames: Vec<&str> = FIELDS.to_vec();
				self.rng.shuffle(&mut fnames);
				let mut fields = Vec::new();
				for fname in fnames.into_iter().take(nf) {
					let c = self.node(depth + 1, rns.as_deref(), false, false);
					fields.push((fname.to_owned(), c));
				}
				self.open_records.pop();
				let l = self.inert_logical();
				self.nodes[id] = Node {
					kind: Kind::Record { name, fields },
					logical: l,
				};
				self.finish(id, enclosing);
				id
			}
		}
	}

	fn decimal(&mut self) -> Logical {
		let scale = *self.rng.pick(&[0u32, 0, 1, 2, 5, 10, 28]);
		Logical::Decimal {
			precision: (scale as usize).max(1) + self.rng.below(10),
			scale,
		}
	}
	fn logical_for(&mut self, opts: &[Logical]) -> Option<Logical> {
		if self.cfg.allow_logical && self.rng.chance(1, 3) {
			Some(self.rng.pick(opts).clone())
		} else {
			self.inert_logical()
		}
	}
	fn inert_logical(&mut self) -> Option<Logical> {
		if self.cfg.allow_inert_logical && self.rng.chance(1, 16) {
			Some(Logical::Unknown(
				(*self.rng.pick(&["my-type", "local-timestamp-millis", "x"])).to_owned(),
			))
		} else {
			None
		}
	}
}

/// Minimal number of nested container levels a value of each node needs (fixpoint);
/// usize::MAX/2 when no finite value exists.
pub fn min_depths(s: &RSchema) -> Vec<usize> {
	const INF: usize = usize::MAX / 2;
	let mut d = vec![INF; s.nodes.len()];
	loop {
		let mut changed = false;
		for id in 0..s.nodes.len() {
			let nd = match &s.nodes[id].kind {
				Kind::Array(_) | Kind::Map(_) => 1,
				Kind::Union(v) => v.iter().map(|&c| d[c]).min().unwrap_or(INF).saturating_add(1),
				Kind::Record { fields, .. } => fields
					.iter()
					.map(|f| d[f.1])
					.max()
					.unwrap_or(0)
					.saturating_add(1),
				_ => 0,
			}
			.min(INF);
			if nd < d[id] {
				d[id] = nd;
				changed = true;
			}
		}
		if !changed {
			break;
		}
	}
	d
}

/// Hash of the shape of a schema (kinds + logical types, names ignored) for "distinct case" counts
pub fn shape_hash(s: &RSchema) -> u64 {
	let mut buf = Vec::new();
	for n in &s.nodes {
		let tag: u8 = match &n.kind {
			Kind::Null => 0,
			Kind::Boolean => 1,
			Kind::Int => 2,
			Kind::Long => 3,
			Kind::Float => 4,
			Kind::Double => 5,
			Kind::Bytes => 6,
			Kind::String => 7,
			Kind::Array(i) => {
				buf.extend_from_slice(&(*i as u32).to_le_bytes());
				8
			}
			Kind::Map(i) => {
				buf.extend_from_slice(&(*i as u32).to_le_bytes());
				9
			}
			Kind::Union(v) => {
				for i in v {
					buf.extend_from_slice(&(*i as u32).to_le_bytes());
				}
				10
			}
			Kind::Record { fields, .. } => {
				for f in fields {
					buf.extend_from_slice(&(f.1 as u32).to_le_bytes());
				}
				11
			}
			Kind::Enum { symbols, .. } => {
				buf.push(symbols.len() as u8);
				12
			}
			Kind::Fixed { size, .. } => {
				buf.push(*size as u8);
				13
			}
		};
		buf.push(tag);
		buf.push(match &n.logical {
			None => 0,
			Some(l) => 1 + l.name().len() as u8,
		});
	}
	crate::rng::fnv(&buf)
}
