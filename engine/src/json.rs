//! Tiny JSON AST with ordered keys, a configurable writer and an independent parser.

use crate::rng::Rng;

#[derive(Clone, Debug, PartialEq)]
pub enum J {
	Null,
	Bool(bool),
	/// number kept as its text
	Num(String),
	Str(String),
	Arr(Vec<J>),
	Obj(Vec<(String, J)>),
}

impl J {
	pub fn s(x: &str) -> J {
		J::Str(x.to_owned())
	}
	pub fn n(x: impl std::fmt::Display) -> J {
		J::Num(x.to_string())
	}
	pub fn get(&self, k: &str) -> Option<&J> {
		match self {
			J::Obj(kv) => kv.iter().find(|(kk, _)| kk == k).map(|(_, v)| v),
			_ => None,
		}
	}
	pub fn as_str(&self) -> Option<&str> {
		match self {
			J::Str(s) => Some(s),
			_ => None,
		}
	}
	pub fn compact(&self) -> String {
		let mut out = String::new();
		write_j(self, &mut out, &mut WriteStyle::compact());
		out
	}
	pub fn styled(&self, rng: &mut Rng) -> String {
		let mut out = String::new();
		let mut st = WriteStyle {
			rng: Some(rng.fork()),
			ws_num: rng.below(4) as u32,
			esc_num: if rng.chance(1, 3) { 1 } else { 0 },
		};
		write_j(self, &mut out, &mut st);
		out
	}
}

pub struct WriteStyle {
	rng: Option<Rng>,
	/// whitespace probability numerator (of 4)
	ws_num: u32,
	/// probability (of 8) to write an ASCII char as \uXXXX
	esc_num: u32,
}
impl WriteStyle {
	pub fn compact() -> Self {
		WriteStyle {
			rng: None,
			ws_num: 0,
			esc_num: 0,
		}
	}
	fn ws(&mut self, out: &mut String) {
		if let Some(r) = &mut self.rng {
			if self.ws_num > 0 && r.chance(self.ws_num, 4) {
				let n = 1 + r.below(3);
				for _ in 0..n {
					out.push(*r.pick(&[' ', '\n', '\t', '\r', ' ']));
				}
			}
		}
	}
}

pub fn write_str(s: &str, out: &mut String, st: &mut WriteStyle) {
	out.push('"');
	for c in s.chars() {
		let force_esc = match &mut st.rng {
			Some(r) if st.esc_num > 0 && (c as u32) < 0x80 => r.chance(st.esc_num, 8),
			_ => false,
		};
		match c {
			_ if force_esc => out.push_str(&format!("\\u{:04x}", c as u32)),
			'"' => out.push_str("\\\""),
			'\\' => out.push_str("\\\\"),
			'\n' => out.push_str("\\n"),
			'\r' => out.push_str("\\r"),
			'\t' => out.push_str("\\t"),
			c if (c as u32) < 0x20 => out.push_str(&format!("\\u{:04x}", c as u32)),
			c => out.push(c),
		}
	}
	out.push('"');
}

pub fn write_j(j: &J, out: &mut String, st: &mut WriteStyle) {
	st.ws(out);
	match j {
		J::Null => out.push_str("null"),
		J::Bool(b) => out.push_str(if *b { "true" } else { "false" }),
		J::Num(n) => out.push_str(n),
		J::Str(s) => write_str(s, out, st),
		J::Arr(xs) => {
			out.push('[');
			for (i, x) in xs.iter().enumerate() {
				if i > 0 {
					out.push(',');
				}
				write_j(x, out, st);
			}
			st.ws(out);
			out.push(']');
		}
		J::Obj(kv) => {
			out.push('{');
			for (i, (k, v)) in kv.iter().enumerate() {
				if i > 0 {
					out.push(',');
				}
				st.ws(out);
				write_str(k, out, st);
				st.ws(out);
				out.push(':');
				write_j(v, out, st);
			}
			st.ws(out);
			out.push('}');
		}
	}
	st.ws(out);
}

// ---------------------------------------------------------------- parser

pub struct Parser<'a> {
	b: &'a [u8],
	i: usize,
	depth: usize,
}

pub fn parse(s: &str) -> Result<J, String> {
	let mut p = Parser {
		b: s.as_bytes(),
		i: 0,
		depth: 0,
	};
	let v = p.value()?;
	p.skip_ws();
	if p.i != p.b.len() {
		return Err(format!("trailing characters at {}", p.i));
	}
	Ok(v)
}

impl<'a> Parser<'a> {
	fn skip_ws(&mut self) {
		while self.i < self.b.len() && matches!(self.b[self.i], b' ' | b'\n' | b'\t' | b'\r') {
			self.i += 1;
		}
	}
	fn peek(&self) -> Option<u8> {
		self.b.get(self.i).copied()
	}
	fn expect(&mut self, c: u8) -> Result<(), String> {
		if self.peek() == Some(c) {
			self.i += 1;
			Ok(())
		} else {
			Err(format!("expected {:?} at {}", c as char, self.i))
		}
	}
	fn value(&mut self) -> Result<J, String> {
		self.skip_ws();
		self.depth += 1;
		if self.depth > 2000 {
			return Err("too deep".into());
		}
		let r = match self.peek() {
			None => Err("eof".to_string()),
			Some(b'n') => self.lit("null", J::Null),
			Some(b't') => self.lit("true", J::Bool(true)),
			Some(b'f') => self.lit("false", J::Bool(false)),
			Some(b'"') => self.string().map(J::Str),
			Some(b'[') => {
				self.i += 1;
				let mut xs = Vec::new();
				self.skip_ws();
				if self.peek() == Some(b']') {
					self.i += 1;
				} else {
					loop {
						xs.push(self.value()?);
						self.skip_ws();
						match self.peek() {
							Some(b',') => self.i += 1,
							Some(b']') => {
								self.i += 1;
								break;
							}
							_ => return Err(format!("bad array at {}", self.i)),
						}
					}
				}
				Ok(J::Arr(xs))
			}
			Some(b'{') => {
				self.i += 1;
				let mut kv = Vec::new();
				self.skip_ws();
				if self.peek() == Some(b'}') {
					self.i += 1;
				} else {
					loop {
						self.skip_ws();
						let k = self.string()?;
						self.skip_ws();
						self.expect(b':')?;
						let v = self.value()?;
						kv.push((k, v));
						self.skip_ws();
						match self.peek() {
							Some(b',') => self.i += 1,
							Some(b'}') => {
								self.i += 1;
								break;
							}
							_ => return Err(format!("bad object at {}", self.i)),
						}
					}
				}
				Ok(J::Obj(kv))
			}
			Some(c) if c == b'-' || c.is_ascii_digit() => {
				let st = self.i;
				while self.i < self.b.len()
					&& matches!(self.b[self.i], b'-' | b'+' | b'.' | b'e' | b'E' | b'0'..=b'9')
				{
					self.i += 1;
				}
				Ok(J::Num(
					std::str::from_utf8(&self.b[st..self.i]).unwrap().to_owned(),
				))
			}
			Some(c) => Err(format!("unexpected {:?} at {}", c as char, self.i)),
		};
		self.depth -= 1;
		r
	}
	fn lit(&mut self, s: &str, v: J) -> Result<J, String> {
		if self.b[self.i..].starts_with(s.as_bytes()) {
			self.i += s.len();
			Ok(v)
		} else {
			Err(format!("bad literal at {}", self.i))
		}
	}
	fn hex4(&mut self) -> Result<u32, String> {
		if self.i + 4 > self.b.len() {
			return Err("eof in \\u".into());
		}
		let s = std::str::from_utf8(&self.b[self.i..self.i + 4]).map_err(|e| e.to_string())?;
		let v = u32::from_str_radix(s, 16).map_err(|e| e.to_string())?;
		self.i += 4;
		Ok(v)
	}
	fn string(&mut self) -> Result<String, String> {
		self.expect(b'"')?;
		let mut out: Vec<u8> = Vec::new();
		loop {
			match self.peek() {
				None => return Err("eof in string".into()),
				Some(b'"') => {
					self.i += 1;
					break;
				}
				Some(b'\\') => {
					self.i += 1;
					let c = self.peek().ok_or("eof in escape")?;
					self.i += 1;
					match c {
						b'"' => out.push(b'"'),
						b'\\' => out.push(b'\\'),
						b'/' => out.push(b'/'),
						b'b' => out.push(8),
						b'f' => out.push(12),
						b'n' => out.push(b'\n'),
						b'r' => out.push(b'\r'),
						b't' => out.push(b'\t'),
						b'u' => {
							let mut cp = self.hex4()?;
							if (0xD800..0xDC00).contains(&cp) {
								if self.b[self.i..].starts_with(b"\\u") {
									self.i += 2;
									let lo = self.hex4()?;
									cp = 0x10000 + ((cp - 0xD800) << 10) + (lo.wrapping_sub(0xDC00) & 0x3FF);
								}
							}
							let ch = char::from_u32(cp).ok_or("bad code point")?;
							let mut buf = [0u8; 4];
							out.extend_from_slice(ch.encode_utf8(&mut buf).as_bytes());
						}
						_ => return Err("bad escape".into()),
					}
				}
				Some(c) => {
					out.push(c);
					self.i += 1;
				}
			}
		}
		String::from_utf8(out).map_err(|e| e.to_string())
	}
}

/// Structural equality of two JSON texts as JSON values (numbers compared as f64 / text)
pub fn json_eq(a: &J, b: &J) -> bool {
	match (a, b) {
		(J::Null, J::Null) => true,
		(J::Bool(x), J::Bool(y)) => x == y,
		(J::Num(x), J::Num(y)) => x == y || x.parse::<f64>().ok() == y.parse::<f64>().ok(),
		(J::Str(x), J::Str(y)) => x == y,
		(J::Arr(x), J::Arr(y)) => x.len() == y.len() && x.iter().zip(y).all(|(p, q)| json_eq(p, q)),
		(J::Obj(x), J::Obj(y)) => {
			x.len() == y.len()
				&& x.iter()
					.zip(y)
					.all(|((k1, v1), (k2, v2))| k1 == k2 && json_eq(v1, v2))
		}
		_ => false,
	}
}

pub fn to_serde(j: &J) -> serde_json::Value {
	serde_json::from_str(&j.compact()).unwrap_or(serde_json::Value::Null)
}
