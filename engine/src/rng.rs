//! Deterministic PRNG owned by the engine (SplitMix64 seeding + xoshiro256**), so that
//! case streams are stable whatever crates are linked.

#[derive(Clone, Debug)]
pub struct Rng {
	s: [u64; 4],
}

pub fn splitmix(x: &mut u64) -> u64 {
	*x = x.wrapping_add(0x9E37_79B9_7F4A_7C15);
	let mut z = *x;
	z = (z ^ (z >> 30)).wrapping_mul(0xBF58_476D_1CE4_E5B9);
	z = (z ^ (z >> 27)).wrapping_mul(0x94D0_49BB_1331_11EB);
	z ^ (z >> 31)
}

/// Mix several integers into one seed
pub fn mix(parts: &[u64]) -> u64 {
	let mut acc = 0x1234_5678_9ABC_DEF0u64;
	for &p in parts {
		let mut x = acc ^ p.wrapping_mul(0xD6E8_FEB8_6659_FD93);
		acc = splitmix(&mut x);
	}
	acc
}

impl Rng {
	pub fn new(seed: u64) -> Self {
		let mut x = seed;
		let s = [
			splitmix(&mut x),
			splitmix(&mut x),
			splitmix(&mut x),
			splitmix(&mut x),
		];
		Rng { s }
	}
	pub fn next_u64(&mut self) -> u64 {
		let r = self.s[1].wrapping_mul(5).rotate_left(7).wrapping_mul(9);
		let t = self.s[1] << 17;
		self.s[2] ^= self.s[0];
		self.s[3] ^= self.s[1];
		self.s[1] ^= self.s[2];
		self.s[0] ^= self.s[3];
		self.s[2] ^= t;
		self.s[3] = self.s[3].rotate_left(45);
		r
	}
	pub fn next_u32(&mut self) -> u32 {
		(self.next_u64() >> 32) as u32
	}
	/// uniform in 0..n (n > 0)
	pub fn below(&mut self, n: usize) -> usize {
		assert!(n > 0);
		(self.next_u64() % (n as u64)) as usize
	}
	/// uniform in lo..=hi
	pub fn range(&mut self, lo: i64, hi: i64) -> i64 {
		assert!(lo <= hi);
		let span = (hi as i128 - lo as i128 + 1) as u128;
		let r = (self.next_u64() as u128) % span;
		(lo as i128 + r as i128) as i64
	}
	/// true with probability num/den
	pub fn chance(&mut self, num: u32, den: u32) -> bool {
		(self.next_u64() % den as u64) < num as u64
	}
	pub fn coin(&mut self) -> bool {
		self.next_u64() & 1 == 1
	}
	pub fn pick<'a, T>(&mut self, xs: &'a [T]) -> &'a T {
		&xs[self.below(xs.len())]
	}
	pub fn shuffle<T>(&mut self, xs: &mut [T]) {
		for i in (1..xs.len()).rev() {
			let j = self.below(i + 1);
			xs.swap(i, j);
		}
	}
	pub fn bytes(&mut self, n: usize) -> Vec<u8> {
		let mut v = Vec::with_capacity(n);
		while v.len() < n {
			let x = self.next_u64().to_le_bytes();
			let take = (n - v.len()).min(8);
			v.extend_from_slice(&x[..take]);
		}
		v
	}
	pub fn fork(&mut self) -> Rng {
		Rng::new(self.next_u64())
	}
}

/// FNV-1a 64, used for "distinct case" accounting
pub fn fnv(data: &[u8]) -> u64 {
	let mut h = 0xcbf2_9ce4_8422_2325u64;
	for &b in data {
		h ^= b as u64;
		h = h.wrapping_mul(0x100_0000_01b3);
	}
	h
}
