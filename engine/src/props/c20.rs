//! C20 — derived schemas fit their types. The cases are *programs*: c20gen/gen.py emits a family of
//! type definitions (seeded), the c20run crate compiles them against the working tree's derive
//! macro, runs them, and this driver judges what they printed.

use crate::json::parse as jparse;
use crate::refavro::schema::*;
use crate::run::{finish, Report, Violation, VERIF};
use serde_json::{json, Value};
use std::collections::{BTreeMap, HashMap, HashSet};
use std::process::Command;
use std::time::Instant;

const RULE: &str = "case = a generated Rust module (family) of types over the shapes C20 lists: named structs (0..6 fields, raw identifiers, name/namespace overrides), newtype structs (of primitives, fixed arrays, other types), unit-only enums, enums of newtype variants with at most one unit variant (serde names = the branch's Avro name), Option, Vec, HashMap/BTreeMap<String,_>, serde_bytes Vec<u8> and [u8; N], Box/Rc/Arc, sharing of sub-types, recursion through Option<Box<Self>> / Vec<Self>, pub generic structs instantiated at 3 different arguments, logical-type attributes (uuid, date, time-*, timestamp-*, decimal via rust_decimal, unknown); compiled against /repo's derive macro at check time, then for every type: schema() three times (one from another thread, JSON must be identical), and N random values (unsigned values within the mapped Avro type) serialized, deserialized and compared, every 16th also through a container file. This driver then reads every schema JSON with the independent reference resolver (one definition per fullname, valid names), compares root fullnames with the expected ones and demands distinct fullnames for distinct generic instantiations. evaluations = values round-tripped; distinct = (type, schema) pairs checked";

fn valid_name(full: &str) -> bool {
	!full.is_empty()
		&& full.split('.').all(|c| {
			let mut ch = c.chars();
			matches!(ch.next(), Some(x) if x.is_ascii_alphabetic() || x == '_') && ch.all(|x| x.is_ascii_alphanumeric() || x == '_')
		})
}

pub fn run(thorough: bool, seed: u64) -> i32 {
	let t0 = Instant::now();
	let (families, ntypes, nvalues) = if thorough { (10, 60, 3000) } else { (2, 34, 400) };
	let mut counters: BTreeMap<String, u64> = BTreeMap::new();
	let mut violations: Vec<Violation> = Vec::new();
	let mut samples: Vec<Value> = Vec::new();
	let mut evaluations = 0u64;
	let mut distinct: HashSet<u64> = HashSet::new();
	let mut inconclusive = 0u64;
	let gen_out = format!("{VERIF}/c20run/src/generated.rs");
	let mut bump = |c: &mut BTreeMap<String, u64>, k: &str, n: u64| *c.entry(k.to_owned()).or_insert(0) += n;
	for fam in 0..families {
		let fseed = seed.wrapping_mul(1000).wrapping_add(fam);
		let g = Command::new("python3")
			.arg(format!("{VERIF}/c20gen/gen.py"))
			.arg(fseed.to_string())
			.arg(ntypes.to_string())
			.arg(&gen_out)
			.output();
		match g {
			Ok(o) if o.status.success() => {}
			other => {
				eprintln!("HARNESS-ERROR: c20gen failed: {other:?}");
				return 2;
			}
		}
		let _ = std::fs::copy(format!("{VERIF}/engine/Cargo.lock"), format!("{VERIF}/c20run/Cargo.lock"));
		let b = Command::new("cargo")
			.args(["build", "--offline", "-q"])
			.current_dir(format!("{VERIF}/c20run"))
			.env("CARGO_TARGET_DIR", format!("{VERIF}/target/c20"))
			.env_remove("RUSTFLAGS")
			.output();
		let b = match b {
			Ok(b) => b,
			Err(e) => {
				eprintln!("HARNESS-ERROR: cannot run cargo: {e}");
				return 2;
			}
		};
		if !b.status.success() {
			let err = String::from_utf8_lossy(&b.stderr).into_owned();
			let from_derive = err.contains("originates in the derive macro `serde_avro_derive::BuildSchema`");
			if from_derive {
				let code = err
					.lines()
					.find(|l| l.starts_with("error["))
					.map(|l| l.chars().take(12).collect::<String>())
					.unwrap_or_else(|| "error".into());
				let _ = std::fs::create_dir_all(format!("{VERIF}/replays"));
				let keep = format!("{VERIF}/replays/C20-family-{fseed}.rs");
				let _ = std::fs::copy(&gen_out, &keep);
				violations.push(Violation {
					signature: format!("derive-output-does-not-compile {code}"),
					case_seed: fseed,
					detail: json!({"family_seed": fseed, "generated_source": keep, "compiler": err.lines().filter(|l| l.starts_with("error")).take(6).collect::<Vec<_>>()}),
				});
				bump(&mut counters, "families_not_compiling", 1);
				continue;
			}
			eprintln!("HARNESS-ERROR: generated family {fseed} does not compile for a reason outside the derive macro:\n{}", err.lines().filter(|l| l.starts_with("error")).take(10).collect::<Vec<_>>().join("\n"));
			return 2;
		}
		bump(&mut counters, "families_compiled", 1);
		let run = Command::new(format!("{VERIF}/target/c20/debug/c20run"))
			.arg(fseed.to_string())
			.arg(nvalues.to_string())
			.output();
		let run = match run {
			Ok(r) => r,
			Err(e) => {
				eprintln!("HARNESS-ERROR: cannot run c20run: {e}");
				return 2;
			}
		};
		let out = String::from_utf8_lossy(&run.stdout).into_owned();
		let meta: Value = std::fs::read(format!("{gen_out}.meta.json"))
			.ok()
			.and_then(|b| serde_json::from_slice(&b).ok())
			.unwrap_or(json!({}));
		let expected: HashMap<String, Option<String>> = meta["checked"]
			.as_array()
			.map(|a| {
				a.iter()
					.map(|c| (c["identity"].as_str().unwrap_or("").to_owned(), c["expected_fullname"].as_str().map(|s| s.to_owned())))
					.collect()
			})
			.unwrap_or_default();
		let mut done = false;
		let mut root_names: HashMap<String, String> = HashMap::new();
		for line in out.lines() {
			let d: Value = match serde_json::from_str(line) {
				Ok(d) => d,
				Err(_) => continue,
			};
			if d["done"] == true {
				done = true;
				continue;
			}
			let ty = d["type"].as_str().unwrap_or("?").to_owned();
			let detail = |extra: Value| json!({"family_seed": fseed, "type": ty, "generated_source": format!("python3 {VERIF}/c20gen/gen.py {fseed} {ntypes} /tmp/family.rs"), "extra": extra});
			bump(&mut counters, "types_checked", 1);
			if let Some(f) = d["failure"].as_str() {
				violations.push(Violation {
					signature: format!("{f} {}", crate::sut::err_sig(d["detail"].as_str().unwrap_or(""))),
					case_seed: fseed,
					detail: detail(d.clone()),
				});
				continue;
			}
			if d["deterministic"] != true {
				violations.push(Violation {
					signature: "schema-not-deterministic".into(),
					case_seed: fseed,
					detail: detail(json!({})),
				});
			}
			let sj = d["schema"].as_str().unwrap_or("");
			// ---- independent validation of the schema document
			match jparse(sj).map_err(|e| ResolveError(e)).and_then(|j| resolve(&j)) {
				Err(e) => {
					let class = if e.0.contains("duplicate") { "duplicate-definition-of-a-fullname" } else { "unresolvable" };
					violations.push(Violation {
						signature: format!("derived-schema-invalid {class}"),
						case_seed: fseed,
						detail: detail(json!({"schema_json": sj, "reference_resolver": e.0})),
					});
				}
				Ok(rs) => {
					for id in rs.reachable() {
						if let Some(f) = rs.fullname(id) {
							if !valid_name(f) {
								violations.push(Violation {
									signature: "derived-schema-invalid name".into(),
									case_seed: fseed,
									detail: detail(json!({"schema_json": sj, "name": f})),
								});
							}
						}
					}
					// field types the generator asked for (primitive-like fields): kind + logical type
					if let Some(exp_fields) = meta["expected_fields"].as_object() {
						for id in rs.reachable() {
							if let Kind::Record { name, fields } = &rs.nodes[id].kind {
								if let Some(ef) = exp_fields.get(name).and_then(|v| v.as_object()) {
									for (fname, fid) in fields {
										if let Some(want) = ef.get(fname).and_then(|v| v.as_str()) {
											let n = &rs.nodes[*fid];
											let base = match &n.kind {
												Kind::Boolean => "boolean".to_owned(),
												Kind::Int => "int".to_owned(),
												Kind::Long => "long".to_owned(),
												Kind::Float => "float".to_owned(),
												Kind::Double => "double".to_owned(),
												Kind::String => "string".to_owned(),
												Kind::Bytes => "bytes".to_owned(),
												Kind::Fixed { size, .. } => format!("fixed({size})"),
												other => format!("{other:?}").chars().take(20).collect(),
											};
											let got = match &n.logical {
												None => base,
												Some(Logical::Decimal { precision, scale }) => format!("{base}/decimal({scale},{precision})"),
												Some(l) => format!("{base}/{}", l.name()),
											};
											bump(&mut counters, "field_types_compared", 1);
											if got != want {
												violations.push(Violation {
													signature: format!("derived-field-type-unexpected want={want} got={got}"),
													case_seed: fseed,
													detail: detail(json!({"record": name, "field": fname, "expected": want, "got": got, "schema_json": sj})),
												});
											}
										}
									}
								}
							}
						}
					}
					if let Some(root) = rs.fullname(0) {
						root_names.insert(ty.clone(), root.to_owned());
						if let Some(Some(exp)) = expected.get(&ty) {
							if exp != root {
								violations.push(Violation {
									signature: "derived-fullname-unexpected".into(),
									case_seed: fseed,
									detail: detail(json!({"expected": exp, "got": root})),
								});
							} else {
								bump(&mut counters, "expected_fullnames_confirmed", 1);
							}
						}
					}
					bump(&mut counters, "schemas_valid_per_reference", 1);
				}
			}
			// ---- values
			let n = d["values"].as_u64().unwrap_or(0);
			let ok = d["ok"].as_u64().unwrap_or(0);
			evaluations += n;
			bump(&mut counters, "values_roundtripped_ok", ok);
			if let Some(fs) = d["failures"].as_array() {
				for f in fs {
					let msg = f.as_str().unwrap_or("");
					let kind = msg.split(':').next().unwrap_or("failure");
					let more = if kind == "serialize" || kind == "deserialize" {
						crate::sut::err_sig(msg.split(':').nth(1).unwrap_or("").trim())
					} else {
						String::new()
					};
					violations.push(Violation {
						signature: format!("value-{kind} {more}").trim().to_owned(),
						case_seed: fseed,
						detail: detail(json!({"failure": msg, "ok": ok, "of": n, "schema_json": sj})),
					});
				}
			}
			if ok > 0 {
				distinct.insert(crate::rng::fnv(format!("{fseed}{ty}{sj}").as_bytes()));
			}
			if samples.len() < 3 && sj.len() > 40 {
				samples.push(json!({"family_seed": fseed, "type": ty, "schema_json": sj.chars().take(700).collect::<String>(), "values_ok": ok}));
			}
		}
		if !done {
			violations.push(Violation {
				signature: format!("family-run-died status={:?}", run.status.code()),
				case_seed: fseed,
				detail: json!({"family_seed": fseed, "stdout_tail": out.lines().rev().take(3).collect::<Vec<_>>()}),
			});
		}
		// distinct generic instantiations must have distinct fullnames
		if let Some(groups) = meta["distinct_groups"].as_array() {
			for g in groups {
				let names: Vec<(String, String)> = g
					.as_array()
					.map(|a| a.iter().filter_map(|t| t.as_str().and_then(|t| root_names.get(t).map(|n| (t.to_owned(), n.clone())))).collect())
					.unwrap_or_default();
				let uniq: HashSet<&String> = names.iter().map(|x| &x.1).collect();
				if names.len() >= 2 {
					bump(&mut counters, "generic_instantiation_groups_checked", 1);
					if uniq.len() != names.len() {
						violations.push(Violation {
							signature: "distinct-generic-instantiations-share-a-fullname".into(),
							case_seed: fseed,
							detail: json!({"family_seed": fseed, "names": names}),
						});
					}
				}
			}
		}
		let _ = &mut inconclusive;
	}
	finish(Report {
		id: "C20",
		level: "exploration",
		rule: RULE,
		assumptions: &[
			"only shapes the statement lists are generated; a compile error outside the derive macro's own output is a harness error (exit 2), not a violation",
			"rustc, serde_derive, serde_bytes and rust_decimal are trusted",
		],
		required: &["families_compiled", "types_checked", "schemas_valid_per_reference", "values_roundtripped_ok", "generic_instantiation_groups_checked", "expected_fullnames_confirmed", "field_types_compared"],
		thorough,
		seed,
		evaluations,
		distinct: distinct.len(),
		counters,
		samples,
		violations,
		inconclusive,
		inconclusive_workers: 0,
		nworkers: 1,
		wall: t0.elapsed().as_secs_f64(),
		extra: Some(json!({"programs": families, "types_per_program": ntypes, "values_per_type": nvalues})),
	})
}
