//! C08 — fingerprint equals CRC-64-AVRO of the Parsing Canonical Form.

use crate::gen::schema::{gen_schema, SchemaGenCfg};
use crate::props::c18::pcf_changing_edit;
use crate::refavro::schema::*;
use crate::refavro::value::hex;
use crate::rng::Rng;
use crate::run::{Ctx, PropSpec};
use crate::sut::err_sig;
use serde_avro_fast::schema::SchemaMut;
use serde_json::json;

pub const SPEC: PropSpec = PropSpec {
	id: "C08",
	level: "exploration",
	rule: "per case: schema AST (incl. equal short names in different namespaces, recursion, sharing, logical types; one in six with field names / symbols containing spaces, non-ASCII letters, combining marks, or 60-200 bytes long) -> 3 random JSON spellings + the builder API; for each: canonical form text (hook H1) == reference canonical form of the AST, SchemaMut::canonical_form_rabin_fingerprint == Schema::rabin_fingerprint == little-endian bitwise CRC-64-AVRO of it, identical across spellings; one canonical-form-changing edit (rename, swap fields, change symbol/size, reorder union, edit inside the second of two same-short-name types) must change the fingerprint, also when applied in place through nodes_mut() to an object whose fingerprint was already queried 0-2 times (then re-queried and frozen; a clone taken before the edit keeps the old one). once per run: the table-driven step (hook H2) against the bitwise definition on the full 2^16 x 2^8 subspace, the 64+8 unit vectors, GF(2)-linearity of the 256-entry table over all 256x256 index pairs, 2x10^6 random (state, byte) pairs and the affine identity on random triples. distinct by hash(canonical form)",
	assumptions: &[
		"the step is (s >> 8) ^ T[(s ^ b) & 0xFF]; agreement on a GF(2) basis plus table linearity extends to all 2^64 x 256 pairs by an affine-map argument, not by observation (exhaustive: false)",
		"a CRC collision between distinct canonical forms is counted as inconclusive",
	],
	cases: (50_000_000, 4_000_000_000),
	secs: (30, 600),
	required: &["fingerprints_ok", "schemas_with_unusual_names", "spellings_agree", "edits_change_fingerprint", "in_place_edit_histories_ok", "step_pairs_checked"],
	run_case,
	once: Some(once),
	panics_are_violations: true,
	cpu_kill_secs: 120,
	max_workers: 16,
};

#[cfg(ten0_serde_avro_fast_verif)]
fn once(ctx: &mut Ctx) {
	use serde_avro_fast::schema::{verif_rabin_init, verif_rabin_step};
	let mut checked = 0u64;
	let mut fail = |ctx: &mut Ctx, s: u64, b: u8, got: u64, want: u64, what: &str| {
		ctx.violation(
			format!("checksum-step-differs-from-definition ({what})"),
			u64::MAX,
			json!({"state": format!("{s:#018x}"), "byte": b, "crate": format!("{got:#018x}"), "bitwise_definition": format!("{want:#018x}")}),
		);
	};
	if verif_rabin_init() != EMPTY64 {
		ctx.violation("checksum-initial-state", u64::MAX, json!({"crate": format!("{:#018x}", verif_rabin_init())}));
	}
	// exhaustive subspace: all low-16-bit states x all bytes, under two high parts
	for hi in [0u64, 0xC15D_213A_A4D7_0000] {
		for s in 0..=0xFFFFu64 {
			for b in 0..=255u8 {
				let st = hi | s;
				let got = verif_rabin_step(st, b);
				let want = crc64_step_bitwise(st, b);
				checked += 1;
				if got != want {
					fail(ctx, st, b, got, want, "exhaustive 2^16 x 2^8 subspace");
					return;
				}
			}
		}
	}
	// unit vectors
	for k in 0..64 {
		for b in [0u8, 1, 0x80, 0xFF] {
			let st = 1u64 << k;
			let (got, want) = (verif_rabin_step(st, b), crc64_step_bitwise(st, b));
			checked += 1;
			if got != want {
				fail(ctx, st, b, got, want, "state unit vectors");
				return;
			}
		}
	}
	for k in 0..8 {
		let b = 1u8 << k;
		let (got, want) = (verif_rabin_step(0, b), crc64_step_bitwise(0, b));
		checked += 1;
		if got != want {
			fail(ctx, 0, b, got, want, "byte unit vectors");
			return;
		}
	}
	// table linearity: T[i ^ j] == T[i] ^ T[j] where T[i] = step(0, i) (state 0 => (0>>8) ^ T[i])
	let t: Vec<u64> = (0..=255u8).map(|i| verif_rabin_step(0, i)).collect();
	for i in 0..256usize {
		for j in 0..256usize {
			checked += 1;
			if t[i ^ j] != t[i] ^ t[j] {
				ctx.violation(
					"checksum-table-not-linear",
					u64::MAX,
					json!({"i": i, "j": j, "T[i^j]": format!("{:#018x}", t[i ^ j]), "T[i]^T[j]": format!("{:#018x}", t[i] ^ t[j])}),
				);
				return;
			}
		}
	}
	// random pairs and the affine identity
	let mut rng = Rng::new(ctx.seed ^ 0xC08);
	for _ in 0..2_000_000 {
		let s = rng.next_u64();
		let b = rng.next_u32() as u8;
		let (got, want) = (verif_rabin_step(s, b), crc64_step_bitwise(s, b));
		checked += 1;
		if got != want {
			fail(ctx, s, b, got, want, "random pairs");
			return;
		}
	}
	for _ in 0..500_000 {
		let (s1, s2) = (rng.next_u64(), rng.next_u64());
		let (b1, b2) = (rng.next_u32() as u8, rng.next_u32() as u8);
		checked += 1;
		if verif_rabin_step(s1 ^ s2, b1 ^ b2) != verif_rabin_step(s1, b1) ^ verif_rabin_step(s2, b2) ^ verif_rabin_step(0, 0) {
			ctx.violation("checksum-step-not-affine", u64::MAX, json!({"s1": s1, "s2": s2, "b1": b1, "b2": b2}));
			return;
		}
	}
	// whole-string vectors from the specification's test suite
	for (txt, want) in [
		("\"null\"", 7195948357588979594i64),
		("\"boolean\"", -6970731678124411036),
		("{\"name\":\"foo\",\"type\":\"fixed\",\"size\":15}", 1756455273707447556),
		(
			"{\"name\":\"PigValue\",\"type\":\"record\",\"fields\":[{\"name\":\"value\",\"type\":[\"null\",\"int\",\"long\",\"PigValue\"]}]}",
			-1759257747318642341,
		),
	] {
		checked += 1;
		if crc64_avro(txt.as_bytes()) as i64 != want {
			ctx.violation("harness-reference-crc-wrong", u64::MAX, json!({"text": txt}));
		}
	}
	ctx.add("step_pairs_checked", checked);
}
#[cfg(not(ten0_serde_avro_fast_verif))]
fn once(_ctx: &mut Ctx) {}

pub fn run_case(ctx: &mut Ctx, case_seed: u64) {
	let mut rng = Rng::new(case_seed);
	let mut cfg = SchemaGenCfg::default();
	cfg.max_nodes = *rng.pick(&[1, 4, 10, 24, 40]);
	let mut rs = gen_schema(&mut rng, &cfg);
	// [STRINGS]: the canonical form carries names as they are, whatever they contain. Now and then field names and
	// symbols get a space, a non-ASCII letter, a combining mark or a CJK character (the crate accepts such names)
	if rng.chance(1, 6) {
		let mut unusual = 0;
		for n in rs.nodes.iter_mut() {
			match &mut n.kind {
				Kind::Record { fields, .. } => {
					for (k, f) in fields.iter_mut().enumerate() {
						if rng.chance(1, 3) {
							f.0 = format!("{}{}{k}", f.0, rng.pick(&[" x", "é", "e\u{301}", "名", "ß "]));
							unusual += 1;
						} else if rng.chance(1, 6) {
							// 60..200 bytes: longer than any block a hasher might buffer
							f.0 = format!("{}_{}{k}", f.0, "long_field_name_".repeat(4 + rng.below(9)));
							unusual += 1;
						}
					}
				}
				Kind::Enum { symbols, .. } => {
					for (k, sy) in symbols.iter_mut().enumerate() {
						if rng.chance(1, 3) {
							*sy = format!("{sy}{}{k}", rng.pick(&[" y", "ü", "o\u{308}", "語"]));
							unusual += 1;
						} else if rng.chance(1, 6) {
							*sy = format!("{sy}_{}{k}", "LONG_SYMBOL_".repeat(5 + rng.below(12)));
							unusual += 1;
						}
					}
				}
				_ => {}
			}
		}
		if unusual > 0 {
			ctx.count("schemas_with_unusual_names");
		}
	}
	let pcf = rs.pcf();
	let want_fp = crc64_avro(pcf.as_bytes()).to_le_bytes();
	let mut texts: Vec<Option<String>> = vec![Some(rs.spell(None).compact())];
	for _ in 0..3 {
		let j = rs.spell(Some(&mut rng));
		texts.push(Some(j.styled(&mut rng)));
	}
	texts.push(None); // builder
	for t in &texts {
		let sm: SchemaMut = match t {
			Some(txt) => match txt.parse() {
				Ok(s) => s,
				Err(e) => {
					ctx.violation(format!("document-rejected {}", err_sig(&e.to_string())), case_seed, json!({"document": txt, "error": e.to_string()}));
					return;
				}
			},
			None => rs.to_schema_mut(),
		};
		let describe = |extra: serde_json::Value| json!({"document": t, "via_builder": t.is_none(), "reference_canonical_form": pcf, "reference_fingerprint_le": hex(&want_fp), "extra": extra});
		#[cfg(ten0_serde_avro_fast_verif)]
		{
			match sm.verif_canonical_form() {
				Ok(got) if got == pcf => {}
				other => {
					ctx.violation("canonical-form-differs-from-reference", case_seed, describe(json!({"crate_canonical_form": format!("{other:?}")})));
					return;
				}
			}
		}
		let fp = match sm.canonical_form_rabin_fingerprint() {
			Ok(f) => f,
			Err(e) => {
				ctx.violation("fingerprint-error", case_seed, describe(json!({"error": e.to_string()})));
				return;
			}
		};
		if fp != want_fp {
			ctx.violation("fingerprint-differs-from-crc64-of-canonical-form", case_seed, describe(json!({"crate_fingerprint": hex(&fp)})));
			return;
		}
		match sm.freeze() {
			Ok(s) => {
				if s.rabin_fingerprint() != &want_fp {
					ctx.violation("frozen-schema-fingerprint-differs", case_seed, describe(json!({"crate_fingerprint": hex(s.rabin_fingerprint())})));
					return;
				}
			}
			Err(e) => {
				ctx.violation(format!("freeze-failed {}", err_sig(&e.to_string())), case_seed, describe(json!({"error": e.to_string()})));
				return;
			}
		}
		ctx.count("fingerprints_ok");
	}
	ctx.count("spellings_agree");
	// sensitivity
	if let Some((rs_b, label)) = pcf_changing_edit(&rs, &mut rng) {
		let pcf_b = rs_b.pcf();
		if crc64_avro(pcf_b.as_bytes()) == crc64_avro(pcf.as_bytes()) {
			ctx.inconclusive += 1;
		} else {
			let sm_b = rs_b.to_schema_mut();
			match sm_b.canonical_form_rabin_fingerprint() {
				Ok(fp_b) if fp_b == want_fp => {
					ctx.violation(
						format!("fingerprint-insensitive-to edit={label}"),
						case_seed,
						json!({"schema_a": rs.spell(None).compact(), "schema_b": rs_b.spell(None).compact(), "pcf_a": pcf, "pcf_b": pcf_b}),
					);
					return;
				}
				Ok(fp_b) => {
					if fp_b != crc64_avro(pcf_b.as_bytes()).to_le_bytes() {
						ctx.violation("fingerprint-differs-from-crc64-of-canonical-form", case_seed, json!({"schema": rs_b.spell(None).compact(), "pcf": pcf_b, "crate_fingerprint": hex(&fp_b)}));
						return;
					}
					ctx.count("edits_change_fingerprint");
					ctx.count(&format!("edit:{label}"));
					// the same edit as a history on ONE object: query, edit in place through nodes_mut(), query again, freeze.
					// Whatever the object remembered from the first query must not survive the edit.
					let mut live: SchemaMut = match rng.below(2) {
						0 => rs.to_schema_mut(),
						_ => match rs.spell(Some(&mut rng)).compact().parse() {
							Ok(s) => s,
							Err(_) => return,
						},
					};
					let queries_before = rng.below(3);
					for _ in 0..queries_before {
						let _ = live.canonical_form_rabin_fingerprint();
					}
					let copy_before_edit = live.clone();
					*live.nodes_mut() = sm_b.nodes().to_vec();
					let want_b = crc64_avro(pcf_b.as_bytes()).to_le_bytes();
					let after = live.canonical_form_rabin_fingerprint();
					let frozen = live.freeze().map(|s| *s.rabin_fingerprint());
					let copy_fp = copy_before_edit.canonical_form_rabin_fingerprint();
					let ok_after = matches!(&after, Ok(f) if *f == want_b);
					let ok_frozen = matches!(&frozen, Ok(f) if *f == want_b);
					let ok_copy = matches!(&copy_fp, Ok(f) if *f == want_fp);
					if !(ok_after && ok_frozen && ok_copy) {
						ctx.violation(
							format!("fingerprint-stale-after-in-place-edit queries_before={} after_ok={ok_after} frozen_ok={ok_frozen} untouched_copy_ok={ok_copy}", queries_before.min(1)),
							case_seed,
							json!({"schema_a": rs.spell(None).compact(), "schema_b": rs_b.spell(None).compact(), "edit": label, "want_after_le": hex(&want_b), "got_after": format!("{after:?}"), "got_frozen": format!("{:?}", frozen.as_ref().map_err(|e| e.to_string())), "copy": format!("{copy_fp:?}")}),
						);
						return;
					}
					ctx.count("in_place_edit_histories_ok");
				}
				Err(_) => {}
			}
		}
	}
	if rs.nodes.len() >= 2 {
		ctx.distinct_bytes(&[pcf.as_bytes()]);
	}
	ctx.sample(|| json!({"canonical_form": pcf, "fingerprint_le": hex(&want_fp), "spellings": texts.iter().flatten().take(2).collect::<Vec<_>>()}));
}
