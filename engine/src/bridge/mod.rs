pub mod call;
pub mod collect;
pub mod present;
