//! Wrappers around the container-file API of the system under test.

use crate::bridge::collect::{Collect, Stats};
use crate::bridge::present::{Pres, Present};
use crate::io::ChunkedBufRead;
use crate::refavro::container::Codec;
use crate::refavro::schema::RSchema;
use crate::refavro::value::Val;
use crate::rng::Rng;
use crate::sut::ModeOwned;
use serde_avro_fast::object_container_file_encoding::{Compression, CompressionLevel, Reader, Writer, WriterBuilder};
use serde_avro_fast::ser::SerializerConfig;
use serde_avro_fast::Schema;
use std::cell::RefCell;
use std::io::Write;

pub fn compression(codec: Codec, level: Option<u8>) -> Compression {
	let l = match level {
		None => CompressionLevel::default(),
		Some(n) => CompressionLevel::new(n.max(1)),
	};
	match codec {
		Codec::Null => Compression::Null,
		Codec::Deflate => Compression::Deflate { level: l },
		Codec::Bzip2 => Compression::Bzip2 { level: l },
		Codec::Snappy => Compression::Snappy,
		Codec::Xz => Compression::Xz { level: l },
		Codec::Zstandard => Compression::Zstandard { level: l },
	}
}

#[derive(Clone, Debug)]
pub enum Op {
	/// serialize value i
	Serialize(usize),
	/// serialize_all values i..j
	SerializeAll(usize, usize),
	FinishBlock,
	/// push_serialized values i..j pre-encoded with to_datum
	Push(usize, usize),
	/// serialize a copy of value i whose last leaf does not fit the schema: the call must fail and leave no trace
	/// in the file (the value itself is written by a later op)
	SerializeUnpresentable(usize),
}

/// deterministic: the last leaf of the value becomes something its schema node cannot take
fn spoil_last_leaf(v: &mut Val) {
	match v {
		Val::Record(xs) | Val::Array(xs) if !xs.is_empty() => {
			let k = xs.len() - 1;
			spoil_last_leaf(&mut xs[k])
		}
		Val::Map(es) if !es.is_empty() => {
			let k = es.len() - 1;
			spoil_last_leaf(&mut es[k].1)
		}
		Val::Union(_, x) => spoil_last_leaf(x),
		other => {
			*other = match other {
				Val::Str(_) => Val::Duration(1, 2, 3),
				_ => Val::Str("unpresentable here".into()),
			}
		}
	}
}

/// random op pattern covering values 0..n in order
pub fn op_pattern(rng: &mut Rng, n: usize) -> Vec<Op> {
	let mut ops = Vec::new();
	let mut i = 0;
	if rng.chance(1, 6) {
		ops.push(Op::FinishBlock);
	}
	while i < n {
		match rng.below(8) {
			0 | 1 | 2 | 3 => {
				ops.push(Op::Serialize(i));
				i += 1;
			}
			4 => {
				let j = (i + 1 + rng.below(8)).min(n);
				ops.push(Op::SerializeAll(i, j));
				i = j;
			}
			5 => {
				let j = (i + 1 + rng.below(5)).min(n);
				ops.push(Op::Push(i, j));
				i = j;
			}
			6 if rng.coin() => {
				ops.push(Op::SerializeUnpresentable(i));
			}
			_ => {
				ops.push(Op::FinishBlock);
				if rng.chance(1, 4) {
					ops.push(Op::FinishBlock);
				}
			}
		}
	}
	if rng.chance(1, 4) {
		ops.push(Op::FinishBlock);
	}
	ops
}

pub struct WriteCfg {
	pub codec: Codec,
	pub level: Option<u8>,
	pub approx_block_size: Option<u32>,
	pub sync: [u8; 16],
	pub user_meta: Vec<(String, Vec<u8>)>,
	/// Some: the sink accepts at most schedule[i] bytes on its i-th call; bool = implements write_vectored itself
	pub sink_schedule: Option<(Vec<usize>, bool)>,
}

struct MetaMap<'a>(&'a [(String, Vec<u8>)]);
impl serde::Serialize for MetaMap<'_> {
	fn serialize<S: serde::Serializer>(&self, s: S) -> Result<S::Ok, S::Error> {
		use serde::ser::SerializeMap;
		let mut m = s.serialize_map(Some(self.0.len()))?;
		for (k, v) in self.0 {
			m.serialize_entry(k, &crate::bridge::present::BytesAsBytes(v))?;
		}
		m.end()
	}
}

pub fn build_writer<'c, 's, W: Write>(
	cfg: &'c mut SerializerConfig<'s>,
	wc: &WriteCfg,
	sink: W,
) -> Result<Writer<'c, 's, W>, String> {
	let mut b = WriterBuilder::new(cfg).compression(compression(wc.codec, wc.level)).sync_marker(wc.sync);
	if let Some(a) = wc.approx_block_size {
		b = b.approx_block_size(a);
	}
	if wc.user_meta.is_empty() {
		b.build(sink).map_err(|e| e.to_string())
	} else {
		b.build_with_user_metadata(sink, MetaMap(&wc.user_meta)).map_err(|e| e.to_string())
	}
}

/// Let go of a writer whose sink may be broken. In debug builds its `Drop` panics on purpose when the final flush fails
/// again; that panic is not the monitored code's verdict (the failing call's Result was), and forgetting the writer
/// instead would leak its buffers and codec state on every injected fault (gigabytes over a thorough run).
pub fn discard_writer<W: Write>(w: Writer<'_, '_, W>) {
	let _ = std::panic::catch_unwind(std::panic::AssertUnwindSafe(move || drop(w)));
	let _ = crate::run::take_last_panic();
}

/// write a whole file with the crate; every op must succeed
pub fn write_file(schema: &Schema, rs: &RSchema, vals: &[Val], ops: &[Op], wc: &WriteCfg, pres: &Pres) -> Result<Vec<u8>, String> {
	let mut cfg = SerializerConfig::new(schema);
	// pre-encode for Push with an independent config
	let sink = match &wc.sink_schedule {
		Some((s, native)) => crate::io::SharedSink::scheduled(s.clone(), *native),
		None => crate::io::SharedSink::default(),
	};
	let shared = sink.buf.clone();
	let mut w = build_writer(&mut cfg, wc, sink)?;
	let mut run = || -> Result<(), String> {
		for op in ops {
			match op {
				Op::Serialize(i) => w.serialize(Present::new(rs, &vals[*i], pres)).map_err(|e| format!("serialize: {e}"))?,
				Op::SerializeAll(i, j) => w
					.serialize_all(vals[*i..*j].iter().map(|v| Present::new(rs, v, pres)))
					.map_err(|e| format!("serialize_all: {e}"))?,
				Op::FinishBlock => w.finish_block().map_err(|e| format!("finish_block: {e}"))?,
				Op::SerializeUnpresentable(i) => {
					let mut bad = vals[*i].clone();
					spoil_last_leaf(&mut bad);
					// only if a scratch serializer refuses it too (a string where bytes are expected is taken, for one)
					let mut scratch = SerializerConfig::new(schema);
					if serde_avro_fast::to_datum_vec(&Present::new(rs, &bad, pres), &mut scratch).is_err() {
						if w.serialize(Present::new(rs, &bad, pres)).is_ok() {
							return Err("serialize: a value that a fresh serializer refuses was accepted by the writer".into());
						}
					}
				}
				Op::Push(i, j) => {
					let mut c2 = SerializerConfig::new(schema);
					let mut buf = Vec::new();
					for v in &vals[*i..*j] {
						buf = serde_avro_fast::to_datum(&Present::new(rs, v, pres), buf, &mut c2).map_err(|e| format!("to_datum: {e}"))?;
					}
					w.push_serialized(&buf, (*j - *i) as u64).map_err(|e| format!("push_serialized: {e}"))?;
				}
			}
		}
		Ok(())
	};
	if let Err(e) = run() {
		// in debug builds Drop deliberately panics when the final flush fails again; the failing
		// call's Result is what is judged, so the writer is not dropped
		discard_writer(w);
		return Err(e);
	}
	w.into_inner().map_err(|e| format!("into_inner: {e}"))?;
	let out = shared.borrow().clone();
	Ok(out)
}

#[derive(Clone, Debug)]
pub enum ReaderKind {
	Slice,
	BufReader(usize),
	Chunked(Vec<usize>),
}

#[derive(Debug, Clone, PartialEq)]
pub enum Item {
	Val(Val),
	Err(String),
	End,
}

/// Pull values until End (then once more to check End is sticky) or until `max_calls`.
pub fn read_file(bytes: &[u8], rs: &RSchema, kind: &ReaderKind, mo: &ModeOwned, max_calls: usize) -> Result<(Vec<Item>, String), String> {
	let stats = RefCell::new(Stats::default());
	let m = mo.as_mode(&stats);
	macro_rules! drive {
		($reader:expr) => {{
			let mut reader = $reader;
			let schema_json = reader.schema().json().to_owned();
			let mut items = Vec::new();
			let mut ends = 0;
			while items.len() < max_calls {
				match reader.deserialize_seed_next(Collect::root(rs, &m)) {
					Ok(Some(v)) => items.push(Item::Val(v)),
					Ok(None) => {
						items.push(Item::End);
						ends += 1;
						if ends >= 2 {
							break;
						}
					}
					Err(e) => items.push(Item::Err(e.to_string())),
				}
			}
			Ok((items, schema_json))
		}};
	}
	match kind {
		ReaderKind::Slice => drive!(Reader::from_slice(bytes).map_err(|e| e.to_string())?),
		ReaderKind::BufReader(cap) => {
			drive!(Reader::from_reader(std::io::BufReader::with_capacity(*cap, bytes)).map_err(|e| e.to_string())?)
		}
		ReaderKind::Chunked(s) => drive!(Reader::from_reader(ChunkedBufRead::new(bytes, s.clone())).map_err(|e| e.to_string())?),
	}
}

pub fn pick_reader_kind(rng: &mut Rng, len: usize) -> ReaderKind {
	match rng.below(8) {
		0 | 1 => ReaderKind::Slice,
		2 => ReaderKind::BufReader(*rng.pick(&[1usize, 2, 7, 64])),
		3 | 4 => ReaderKind::BufReader(8192),
		5 => ReaderKind::BufReader(*rng.pick(&[8191usize, 8193, 16384, 100_000])),
		_ => ReaderKind::Chunked(crate::io::schedule(rng, len)),
	}
}
