//! C06 — container files follow the Avro file layout and interoperate with other tools.

use crate::bridge::present::Pres;
use crate::gen::schema::shape_hash;
use crate::json::{json_eq, parse as jparse};
use crate::props::c05::{payload_case, pick_write_cfg};
use crate::refavro::container::{self, Codec, WriteOpts};
use crate::refavro::schema::*;
use crate::refavro::value::*;
use crate::rng::Rng;
use crate::run::{Ctx, PropSpec};
use crate::sut::*;
use crate::sutc::*;
use serde_json::json;

pub const SPEC: PropSpec = PropSpec {
	id: "C06",
	level: "exploration",
	rule: "direction A (crate writes; half of the files through a sink that accepts only part of each write): files from the C05 workload plus random user metadata maps (0..8 keys, binary values) are un-framed by the reference parser: magic, metadata map with avro.schema JSON-equal to Schema::json() and avro.codec = specification name, every user key with exact bytes, 16-byte sync, blocks of (count, size, codec-framed data, same sync); decoded values == written; for deflate/bzip2/xz a sample of files is additionally un-framed by tools/ocf_ref.py (python zlib raw / bz2 / lzma, stream must be terminated with nothing after it; block counts, raw lengths and CRC-32 compared); apache-avro reads a fixed-shape sample; a quarter of the cases also write the same values through write_all or a WriterBuilder::with_owned_config writer (reference parser reads them back). direction B (crate reads): the reference writer produces any block partitioning incl. zero-count blocks, shuffled metadata order, extra keys, metadata map split in several blocks / negative-count blocks, avro.codec absent or \"null\", all six codecs; apache-avro-written files for its codecs; the crate's Reader (slice / BufReader / chunked) must yield exactly the values through deserialize_seed_next and through one more of its public reading APIs per case (deserialize iterator over slice / BufReader, deserialize_next over a chunked reader, deserialize_borrowed and deserialize_next_borrowed over the slice, new_and_metadata over SliceRead / ReaderRead returning the user metadata that was written), each ending exactly once the values are out. distinct by hash(file bytes)",
	assumptions: &["codec libraries' own streaming front ends and python3's zlib/bz2/lzma are the trusted base for payload (de)compression"],
	cases: (50_000_000, 4_000_000_000),
	secs: (45, 900),
	required: &["crate_written_layout_ok", "files_written_to_short_writing_sink", "reference_written_read_ok", "api_variety_ok", "user_metadata_read_back_ok", "convenience_writers_ok", "user_metadata_checked", "codec_key_absent_read_ok", "python_crosschecks_ok", "apache_reads_crate_ok", "crate_reads_apache_ok"],
	run_case,
	once: None,
	panics_are_violations: true,
	cpu_kill_secs: 120,
	max_workers: 16,
};

fn user_meta(rng: &mut Rng) -> Vec<(String, Vec<u8>)> {
	let n = rng.below(9);
	(0..n)
		.map(|i| {
			let k = match rng.below(4) {
				0 => format!("user.key{i}"),
				1 => format!("é☃{i}"),
				2 => format!("avro.custom.{i}"),
				_ => format!("k{i}"),
			};
			let len = *rng.pick(&[0usize, 1, 5, 64, 300]);
			(k, rng.bytes(len))
		})
		.collect()
}

pub fn run_case(ctx: &mut Ctx, case_seed: u64) {
	let mut rng = Rng::new(case_seed);
	match rng.below(10) {
		0..=3 => crate_writes(ctx, case_seed, &mut rng),
		4..=7 => crate_reads(ctx, case_seed, &mut rng),
		_ => apache_interop(ctx, case_seed, &mut rng),
	}
}

fn crate_writes(ctx: &mut Ctx, case_seed: u64, rng: &mut Rng) {
	let (rs, vals, shape) = payload_case(rng);
	let (schema, _) = make_schema(&rs, pick_via(rng), rng);
	let schema = match schema {
		Ok(s) => s,
		Err(_) => return,
	};
	let mut wc = pick_write_cfg(rng);
	wc.sink_schedule = crate::props::c05::pick_sink_schedule(rng);
	if wc.sink_schedule.is_some() {
		ctx.count("files_written_to_short_writing_sink");
	}
	wc.user_meta = user_meta(rng);
	wc.sync = rng.bytes(16).try_into().unwrap();
	let ops = op_pattern(rng, vals.len());
	let describe = |extra: serde_json::Value| {
		json!({"schema": rs.spell(None).compact(), "payload_shape": shape, "n_values": vals.len(), "codec": wc.codec.name(), "level": wc.level, "approx_block_size": wc.approx_block_size, "sink_schedule": format!("{:?}", wc.sink_schedule),
			"user_metadata_keys": wc.user_meta.iter().map(|(k, v)| format!("{k} ({} bytes)", v.len())).collect::<Vec<_>>(), "ops": format!("{ops:?}").chars().take(400).collect::<String>(), "extra": extra})
	};
	let file = match write_file(&schema, &rs, &vals, &ops, &wc, &Pres::canonical()) {
		Ok(f) => f,
		Err(e) => {
			ctx.violation(format!("write-failed codec={} {}", wc.codec.name(), err_sig(&e)), case_seed, describe(json!({"error": e})));
			return;
		}
	};
	let ocf = match container::parse(&file) {
		Ok(o) => o,
		Err((m, _)) => {
			ctx.violation(
				format!("layout: not-parseable-by-reference codec={} {}", wc.codec.name(), err_sig(&m)),
				case_seed,
				describe(json!({"reference_parser": m, "file_head": hex(&file[..file.len().min(200)])})),
			);
			return;
		}
	};
	// metadata
	let get = |k: &str| ocf.meta.iter().filter(|(kk, _)| kk == k).map(|(_, v)| v.clone()).collect::<Vec<_>>();
	let schema_entries = get("avro.schema");
	let ok_schema = schema_entries.len() == 1
		&& match (jparse(&String::from_utf8_lossy(&schema_entries[0])), jparse(schema.json())) {
			(Ok(a), Ok(b)) => json_eq(&a, &b),
			_ => false,
		};
	if !ok_schema {
		ctx.violation("layout: avro.schema-metadata-is-not-the-schema-json", case_seed, describe(json!({"avro.schema": schema_entries.iter().map(|v| String::from_utf8_lossy(v).into_owned()).collect::<Vec<_>>(), "json()": schema.json()})));
		return;
	}
	let codec_entries = get("avro.codec");
	if codec_entries.len() != 1 || codec_entries[0] != wc.codec.name().as_bytes() {
		ctx.violation(
			format!("layout: avro.codec-metadata-wrong codec={}", wc.codec.name()),
			case_seed,
			describe(json!({"avro.codec": codec_entries.iter().map(|v| String::from_utf8_lossy(v).into_owned()).collect::<Vec<_>>()})),
		);
		return;
	}
	for (k, v) in &wc.user_meta {
		let got = get(k);
		// duplicate user keys collapse to the last one in a map: generator keys are unique
		if got.len() != 1 || &got[0] != v {
			ctx.violation("layout: user-metadata-missing-or-altered", case_seed, describe(json!({"key": k, "expected": hex(v), "got": got.iter().map(|g| hex(g)).collect::<Vec<_>>()})));
			return;
		}
		ctx.count("user_metadata_checked");
	}
	if ocf.meta.len() != 2 + wc.user_meta.len() {
		ctx.violation("layout: unexpected-extra-metadata", case_seed, describe(json!({"keys": ocf.meta.iter().map(|(k, _)| k.clone()).collect::<Vec<_>>()})));
		return;
	}
	if ocf.sync != wc.sync {
		ctx.violation("layout: sync-marker-is-not-the-configured-one", case_seed, describe(json!({"got": hex(&ocf.sync)})));
		return;
	}
	match container::decode_values(&ocf, &rs) {
		Ok(got) if got == vals => {}
		other => {
			ctx.violation(
				format!("layout: values-differ-for-reference-reader codec={}", wc.codec.name()),
				case_seed,
				describe(json!({"reference": format!("{:?}", other.map(|v| v.len())).chars().take(300).collect::<String>()})),
			);
			return;
		}
	}
	if ocf.blocks.iter().any(|b| b.count == 0) {
		ctx.count("crate_wrote_zero_count_block");
	}
	ctx.count("crate_written_layout_ok");
	ctx.count(&format!("codec:{}", wc.codec.name()));
	// the convenience entry points produce files too: `write_all`, and a builder that owns its configuration
	if rng.chance(1, 4) {
		use crate::bridge::present::Present;
		use serde_avro_fast::object_container_file_encoding::{write_all, WriterBuilder};
		let pres = Pres::canonical();
		let which = if rng.coin() { "write_all" } else { "with_owned_config" };
		let alt: Result<Vec<u8>, String> = if which == "write_all" {
			write_all(&schema, compression(wc.codec, wc.level), Vec::new(), vals.iter().map(|v| Present::new(&rs, v, &pres))).map_err(|e| e.to_string())
		} else {
			(|| -> Result<Vec<u8>, String> {
				let mut b = WriterBuilder::with_owned_config(serde_avro_fast::ser::SerializerConfig::new(&schema));
				// the configuration stays reachable through the builder
				if !std::ptr::eq(b.serializer_config().schema(), &schema) {
					return Err("serializer_config() is not the configuration that was passed".into());
				}
				let mut w = b.compression(compression(wc.codec, wc.level)).sync_marker(wc.sync).build(Vec::new()).map_err(|e| e.to_string())?;
				for v in &vals {
					w.serialize(Present::new(&rs, v, &pres)).map_err(|e| e.to_string())?;
				}
				w.into_inner().map_err(|e| e.to_string())
			})()
		};
		let verdict = match &alt {
			Err(e) => Some(format!("failed {}", err_sig(e))),
			Ok(f) => match container::parse(f).map_err(|e| e.0).and_then(|o| {
				if o.codec != wc.codec {
					return Err(format!("codec in file is {}", o.codec.name()));
				}
				container::decode_values(&o, &rs)
			}) {
				Ok(got) if got == vals => None,
				Ok(_) => Some("values-differ-for-reference-reader".to_owned()),
				Err(m) => Some(format!("not-parseable-by-reference {}", err_sig(&m))),
			},
		};
		if let Some(v) = verdict {
			ctx.violation(format!("layout: {which} codec={} {v}", wc.codec.name()), case_seed, describe(json!({"entry_point": which, "result": alt.as_ref().map(|f| f.len()).map_err(|e| e.clone())})));
			return;
		}
		ctx.count("convenience_writers_ok");
	}
	// independent python un-framing for a sample
	if matches!(wc.codec, Codec::Deflate | Codec::Bzip2 | Codec::Xz | Codec::Null) && rng.chance(1, 12) {
		let path = format!("/verif/target/run/C06/py-{}-{}.avro", ctx.shard, case_seed);
		if std::fs::write(&path, &file).is_ok() {
			let out = std::process::Command::new("python3").arg("/verif/tools/ocf_ref.py").arg(&path).output();
			let _ = std::fs::remove_file(&path);
			match out {
				Ok(o) => {
					let v: serde_json::Value = serde_json::from_slice(&o.stdout).unwrap_or(json!({"ok": false, "error": "no json"}));
					let blocks_ok = v["blocks"].as_array().map_or(false, |bs| {
						bs.len() == ocf.blocks.len()
							&& bs.iter().zip(&ocf.blocks).all(|(p, r)| {
								p["count"].as_i64() == Some(r.count)
									&& p["raw_len"].as_u64() == Some(r.raw.len() as u64)
									&& p["crc32"].as_u64() == Some(crc32_ieee(&r.raw) as u64)
							})
					});
					if v["ok"] != true || !blocks_ok || v["codec"] != wc.codec.name() {
						ctx.violation(
							format!("layout: python-unframing-disagrees codec={}", wc.codec.name()),
							case_seed,
							describe(json!({"python": v, "reference_blocks": ocf.blocks.iter().map(|b| json!({"count": b.count, "raw_len": b.raw.len()})).collect::<Vec<_>>()})),
						);
						return;
					}
					ctx.count("python_crosschecks_ok");
				}
				Err(_) => ctx.inconclusive += 1,
			}
		}
	}
	ctx.distinct_bytes(&[&shape_hash(&rs).to_le_bytes(), &crate::rng::fnv(&file).to_le_bytes()]);
	ctx.sample(|| describe(json!({"file_len": file.len(), "blocks": ocf.blocks.len()})));
}


/// The other public ways of reading the same file: iterator, `deserialize_next`, the `_borrowed` forms for
/// slices, and `new_and_metadata`; all must deliver what `deserialize_seed_next` delivers (C06's oracle: the values
/// the reference writer put in, the user metadata it wrote).
fn api_variety(ctx: &mut Ctx, case_seed: u64, rng: &mut Rng, rs: &RSchema, vals: &[Val], file: &[u8], um: &[(String, Vec<u8>)], describe: &dyn Fn(serde_json::Value) -> serde_json::Value) -> bool {
	use crate::bridge::collect::untyped;
	use crate::props::c11::AnyOwned;
	use serde_avro_fast::de::read::{ReaderRead, SliceRead};
	use serde_avro_fast::object_container_file_encoding::Reader;
	use std::collections::BTreeMap;
	let want: Vec<String> = vals.iter().map(|v| format!("{:?}", untyped(rs, 0, v))).collect();
	let want_meta: BTreeMap<String, Vec<u8>> = um.iter().cloned().collect();
	let api = rng.below(6);
	let name = ["iterator(slice)", "iterator(bufreader)", "deserialize_next(reader)", "deserialize_borrowed(slice)", "deserialize_next_borrowed(slice)", "new_and_metadata"][api];
	let mut got: Vec<String> = Vec::new();
	let mut err: Option<String> = None;
	let mut ended_twice = true;
	let mut meta_got: Option<BTreeMap<String, Vec<u8>>> = None;
	let cap = vals.len() + 3;
	match api {
		0 => match Reader::from_slice(file) {
			Ok(mut r) => {
				for x in r.deserialize::<AnyOwned>().take(cap) {
					match x {
						Ok(v) => got.push(format!("{:?}", v.0)),
						Err(e) => {
							err = Some(e.to_string());
							break;
						}
					}
				}
				// a finished iterator restarted on the same reader must find nothing more
				ended_twice = r.deserialize::<AnyOwned>().next().is_none();
			}
			Err(e) => err = Some(format!("open: {e}")),
		},
		1 => match Reader::from_reader(std::io::BufReader::with_capacity(*rng.pick(&[1usize, 13, 8192]), file)) {
			Ok(mut r) => {
				for x in r.deserialize::<AnyOwned>().take(cap) {
					match x {
						Ok(v) => got.push(format!("{:?}", v.0)),
						Err(e) => {
							err = Some(e.to_string());
							break;
						}
					}
				}
				ended_twice = r.deserialize::<AnyOwned>().next().is_none();
			}
			Err(e) => err = Some(format!("open: {e}")),
		},
		2 => match Reader::from_reader(crate::io::ChunkedBufRead::new(file, crate::io::schedule(rng, file.len()))) {
			Ok(mut r) => {
				loop {
					match r.deserialize_next::<AnyOwned>() {
						Ok(Some(v)) => got.push(format!("{:?}", v.0)),
						Ok(None) => break,
						Err(e) => {
							err = Some(e.to_string());
							break;
						}
					}
					if got.len() > cap {
						break;
					}
				}
				ended_twice = matches!(r.deserialize_next::<AnyOwned>(), Ok(None));
			}
			Err(e) => err = Some(format!("open: {e}")),
		},
		3 => match Reader::from_slice(file) {
			Ok(mut r) => {
				for x in r.deserialize_borrowed::<AnyOwned>().take(cap) {
					match x {
						Ok(v) => got.push(format!("{:?}", v.0)),
						Err(e) => {
							err = Some(e.to_string());
							break;
						}
					}
				}
				ended_twice = r.deserialize_borrowed::<AnyOwned>().next().is_none();
			}
			Err(e) => err = Some(format!("open: {e}")),
		},
		4 => match Reader::from_slice(file) {
			Ok(mut r) => {
				loop {
					match r.deserialize_next_borrowed::<AnyOwned>() {
						Ok(Some(v)) => got.push(format!("{:?}", v.0)),
						Ok(None) => break,
						Err(e) => {
							err = Some(e.to_string());
							break;
						}
					}
					if got.len() > cap {
						break;
					}
				}
				ended_twice = matches!(r.deserialize_next_borrowed::<AnyOwned>(), Ok(None));
			}
			Err(e) => err = Some(format!("open: {e}")),
		},
		_ => {
			type M = BTreeMap<String, serde_bytes::ByteBuf>;
			let conv = |m: M| -> BTreeMap<String, Vec<u8>> { m.into_iter().map(|(k, v)| (k, v.into_vec())).collect() };
			let r = if rng.coin() {
				Reader::new_and_metadata::<M>(SliceRead::new(file)).map(|(mut r, m)| {
					let vs: Vec<_> = r.deserialize::<AnyOwned>().take(cap).collect();
					(vs, conv(m))
				})
			} else {
				Reader::new_and_metadata::<M>(ReaderRead::new(std::io::BufReader::with_capacity(7, file))).map(|(mut r, m)| {
					let vs: Vec<_> = r.deserialize::<AnyOwned>().take(cap).collect();
					(vs, conv(m))
				})
			};
			match r {
				Ok((vs, m)) => {
					meta_got = Some(m);
					for x in vs {
						match x {
							Ok(v) => got.push(format!("{:?}", v.0)),
							Err(e) => {
								err = Some(e.to_string());
								break;
							}
						}
					}
				}
				Err(e) => err = Some(format!("open: {e}")),
			}
		}
	}
	ctx.count(&format!("api:{name}"));
	let meta_ok = meta_got.as_ref().map_or(true, |m| *m == want_meta);
	if err.is_some() || got != want || !ended_twice || !meta_ok {
		let what = if let Some(e) = &err {
			format!("error {}", err_sig(e))
		} else if !meta_ok {
			"user-metadata-differs".to_owned()
		} else if !ended_twice {
			"not-ended-after-end".to_owned()
		} else if got.len() != want.len() {
			"different-number-of-values".to_owned()
		} else {
			"different-value".to_owned()
		};
		let first_bad = got.iter().zip(&want).position(|(a, b)| a != b).unwrap_or(got.len().min(want.len()));
		ctx.violation(
			format!("conforming-file-misread api={name} {what}"),
			case_seed,
			describe(json!({"api": name, "error": err, "values_got": got.len(), "values_written": want.len(), "first_difference_at": first_bad,
				"got": got.get(first_bad).map(|s| s.chars().take(300).collect::<String>()), "want": want.get(first_bad).map(|s| s.chars().take(300).collect::<String>()),
				"user_metadata_got": meta_got.as_ref().map(|m| m.iter().map(|(k, v)| format!("{k}={}", hex(v))).collect::<Vec<_>>()),
				"user_metadata_written": want_meta.iter().map(|(k, v)| format!("{k}={}", hex(v))).collect::<Vec<_>>()})),
		);
		return false;
	}
	if meta_got.is_some() {
		ctx.count("user_metadata_read_back_ok");
	}
	ctx.count("api_variety_ok");
	true
}

fn crate_reads(ctx: &mut Ctx, case_seed: u64, rng: &mut Rng) {
	let (rs, vals, shape) = payload_case(rng);
	if vals.iter().map(|v| v.weight()).sum::<usize>() > 400_000 {
		return;
	}
	let schema_json = if rng.coin() {
		rs.spell(None).compact()
	} else {
		let j = rs.spell(Some(rng));
		j.styled(rng)
	};
	let codec = *rng.pick(&Codec::ALL);
	let write_codec_key = !(codec == Codec::Null && rng.coin());
	let mut enc = Vec::new();
	for v in &vals {
		match encode_random(&rs, v, rng) {
			Ok(b) => enc.push(b),
			Err(_) => return,
		}
	}
	let mut um = user_meta(rng);
	um.retain(|(k, _)| !k.starts_with("avro."));
	let sync: [u8; 16] = rng.bytes(16).try_into().unwrap();
	let mut wrng = rng.fork();
	let file = container::write(
		&schema_json,
		&enc,
		&mut WriteOpts {
			codec,
			write_codec_key,
			user_meta: um.clone(),
			sync,
			rng: &mut wrng,
			empty_blocks: true,
		},
	);
	let describe = |extra: serde_json::Value| {
		json!({"schema_json": schema_json, "payload_shape": shape, "n_values": vals.len(), "codec": codec.name(), "avro.codec_key_written": write_codec_key, "user_metadata_keys": um.iter().map(|(k, _)| k.clone()).collect::<Vec<_>>(),
			"file_len": file.len(), "file_head": hex(&file[..file.len().min(240)]), "extra": extra})
	};
	// the reference parser must accept its own file (guards the harness)
	match container::parse(&file).map_err(|e| e.0).and_then(|o| container::decode_values(&o, &rs)) {
		Ok(v) if v == vals => {}
		other => {
			ctx.violation("harness: reference-writer-output-not-read-by-reference-parser", case_seed, describe(json!({"got": format!("{:?}", other.map(|v| v.len()))})));
			return;
		}
	}
	for _ in 0..2 {
		let kind = pick_reader_kind(rng, file.len());
		let mo = ModeOwned::random(rng);
		match read_file(&file, &rs, &kind, &mo, vals.len() + 4) {
			Err(e) => {
				ctx.violation(
					format!("conforming-file-rejected-at-open codec={} codec_key={} {}", codec.name(), write_codec_key, err_sig(&e)),
					case_seed,
					describe(json!({"reader": format!("{kind:?}"), "error": e})),
				);
				return;
			}
			Ok((items, _)) => {
				let mut want: Vec<Item> = vals.iter().cloned().map(Item::Val).collect();
				want.push(Item::End);
				want.push(Item::End);
				if items != want {
					let first_bad = items.iter().zip(&want).position(|(a, b)| a != b).unwrap_or(items.len().min(want.len()));
					let what = match items.get(first_bad) {
						Some(Item::Err(e)) => format!("error {}", err_sig(e)),
						Some(Item::End) => "premature-end".into(),
						Some(Item::Val(_)) => "wrong-or-extra-value".into(),
						None => "missing-items".into(),
					};
					ctx.violation(
						format!("conforming-file-misread codec={} {what}", codec.name()),
						case_seed,
						describe(json!({"reader": format!("{kind:?}"), "first_difference_at": first_bad, "got": format!("{:?}", items.get(first_bad)).chars().take(300).collect::<String>()})),
					);
					return;
				}
			}
		}
	}
	if !api_variety(ctx, case_seed, rng, &rs, &vals, &file, &um, &describe) {
		return;
	}
	if !write_codec_key {
		ctx.count("codec_key_absent_read_ok");
	}
	ctx.count("reference_written_read_ok");
	ctx.count(&format!("read_codec:{}", codec.name()));
	ctx.distinct_bytes(&[&crate::rng::fnv(&file).to_le_bytes()]);
}

#[cfg(feature = "apache")]
fn apache_interop(ctx: &mut Ctx, case_seed: u64, rng: &mut Rng) {
	use apache_avro::types::Value as AV;
	let schema_text = r#"{"type":"record","name":"ns.Rec","fields":[{"name":"a","type":"long"},{"name":"b","type":"string"},{"name":"c","type":"bytes"},{"name":"d","type":["null","double"]},{"name":"e","type":{"type":"array","items":"int"}}]}"#;
	let rs = match crate::json::parse(schema_text).ok().and_then(|j| resolve(&j).ok()) {
		Some(r) => r,
		None => return,
	};
	let n = rng.below(40);
	let mut vals = Vec::new();
	let mut avs = Vec::new();
	for i in 0..n {
		let a = crate::gen::value::ValueGen::interesting_i64(rng);
		let b = format!("s{i}é");
		let c = {
			let cap = if rng.chance(1, 10) { 50_000 } else { 40 };
			let l = rng.below(cap);
			rng.bytes(l)
		};
		let d = if rng.coin() { Some(f64::from_bits(crate::gen::value::ValueGen::interesting_f64(rng))) } else { None };
		let d = d.filter(|x| !x.is_nan());
		let e: Vec<i32> = (0..rng.below(4)).map(|_| crate::gen::value::ValueGen::interesting_i32(rng)).collect();
		vals.push(Val::Record(vec![
			Val::Long(a),
			Val::Str(b.clone()),
			Val::Bytes(c.clone()),
			match d {
				Some(x) => Val::Union(1, Box::new(Val::Double(x.to_bits()))),
				None => Val::Union(0, Box::new(Val::Null)),
			},
			Val::Array(e.iter().map(|x| Val::Int(*x)).collect()),
		]));
		avs.push(AV::Record(vec![
			("a".into(), AV::Long(a)),
			("b".into(), AV::String(b)),
			("c".into(), AV::Bytes(c)),
			(
				"d".into(),
				match d {
					Some(x) => AV::Union(1, Box::new(AV::Double(x))),
					None => AV::Union(0, Box::new(AV::Null)),
				},
			),
			("e".into(), AV::Array(e.into_iter().map(AV::Int).collect())),
		]));
	}
	let codec = *rng.pick(&Codec::ALL);
	let acodec = match codec {
		Codec::Null => apache_avro::Codec::Null,
		Codec::Deflate => apache_avro::Codec::Deflate,
		Codec::Bzip2 => apache_avro::Codec::Bzip2,
		Codec::Snappy => apache_avro::Codec::Snappy,
		Codec::Xz => apache_avro::Codec::Xz,
		Codec::Zstandard => apache_avro::Codec::Zstandard,
	};
	let aschema = match apache_avro::Schema::parse_str(schema_text) {
		Ok(s) => s,
		Err(_) => return,
	};
	// apache writes -> crate reads
	{
		let mut w = apache_avro::Writer::with_codec(&aschema, Vec::new(), acodec);
		for v in &avs {
			if w.append(v.clone()).is_err() {
				return;
			}
			if rng.chance(1, 5) {
				let _ = w.flush();
			}
		}
		let file = match w.into_inner() {
			Ok(f) => f,
			Err(_) => return,
		};
		let kind = pick_reader_kind(rng, file.len());
		match read_file(&file, &rs, &kind, &ModeOwned::random(rng), vals.len() + 4) {
			Ok((items, _)) => {
				let mut want: Vec<Item> = vals.iter().cloned().map(Item::Val).collect();
				want.push(Item::End);
				want.push(Item::End);
				if items != want {
					// arbitrated by the reference parser
					let ref_ok = container::parse(&file).map_err(|e| e.0).and_then(|o| container::decode_values(&o, &rs)).map_or(false, |v| v == vals);
					if ref_ok {
						ctx.violation(
							format!("apache-written-file-misread codec={}", codec.name()),
							case_seed,
							json!({"n_values": vals.len(), "reader": format!("{kind:?}"), "first_items": format!("{:?}", items.iter().take(2).collect::<Vec<_>>()).chars().take(400).collect::<String>()}),
						);
						return;
					}
					ctx.count("apache_file_also_rejected_by_reference");
				} else {
					ctx.count("crate_reads_apache_ok");
				}
			}
			Err(e) => {
				let ref_ok = container::parse(&file).is_ok();
				if ref_ok {
					ctx.violation(format!("apache-written-file-rejected codec={} {}", codec.name(), err_sig(&e)), case_seed, json!({"error": e, "file_head": hex(&file[..file.len().min(200)])}));
					return;
				}
			}
		}
	}
	// crate writes -> apache reads
	{
		let schema: serde_avro_fast::Schema = match schema_text.parse() {
			Ok(s) => s,
			Err(_) => return,
		};
		let mut wc = pick_write_cfg(rng);
		wc.codec = codec;
		let ops = op_pattern(rng, vals.len());
		let file = match write_file(&schema, &rs, &vals, &ops, &wc, &Pres::canonical()) {
			Ok(f) => f,
			Err(_) => return,
		};
		let rd = apache_avro::Reader::new(&file[..]);
		let got: Result<Vec<AV>, String> = match rd {
			Ok(r) => r.map(|x| x.map_err(|e| e.to_string())).collect(),
			Err(e) => Err(e.to_string()),
		};
		match got {
			Ok(g) if g == avs => ctx.count("apache_reads_crate_ok"),
			other => {
				// apache-avro has its own limitations (e.g. zero-count blocks); arbitrate with the reference
				let ref_ok = container::parse(&file).map_err(|e| e.0).and_then(|o| container::decode_values(&o, &rs)).map_or(false, |v| v == vals);
				if !ref_ok {
					ctx.violation(
						format!("crate-written-file-unreadable-by-apache-and-reference codec={}", codec.name()),
						case_seed,
						json!({"apache": format!("{:?}", other.map(|v| v.len()))}),
					);
					return;
				}
				ctx.count("apache_disagrees_but_reference_reads_it");
			}
		}
	}
}
#[cfg(not(feature = "apache"))]
fn apache_interop(_ctx: &mut Ctx, _case_seed: u64, _rng: &mut Rng) {}
