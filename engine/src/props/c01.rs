//! C01 — datum round trip: decode(encode(v, S), S) = v

use crate::bridge::collect::untyped;
use crate::bridge::present::Pres;
use crate::gen::schema::{gen_schema, shape_hash, SchemaGenCfg};
use crate::gen::value::{depth_cost, ValueGen};
use crate::io::schedule;
use crate::refavro::value::{decode_datum, hex, Val};
use crate::rng::Rng;
use crate::run::{Ctx, PropSpec};
use crate::sut::*;
use serde_json::json;

pub const SPEC: PropSpec = PropSpec {
	id: "C01",
	level: "exploration",
	rule: "case = (random spec-valid schema AST [all kinds, logical types, namespaces, recursion, sharing] built via plain text / fancy spelling / builder API, boundary-biased conforming value, random presentation [union by name or by type when only one branch can accept the serde type, struct/map records, field order, omitted null fields, length hints], random target hints [enum/option unions, enum via str/u64/identifier, duration via tuple/struct/bytes, owned/borrowed], slice + chunked reader + deserialize_any); a case is non-trivial when its schema has >= 2 nodes; distinct by hash(schema shape, encoded bytes, presentation, target mode)",
	assumptions: &[
		"the reference encoder/decoder (engine/src/refavro) implements the Avro 1.11 binary encoding correctly",
		"decimals kept within the documented 16-byte / 96-bit / scale<=28 limits; unions are valid per the spec",
	],
	cases: (50_000_000, 4_000_000_000),
	secs: (30, 600),
	required: &["ok_roundtrips", "typed_fixture_roundtrips", "typed_fixed_length_sequences", "datum_into_short_writing_sink_equal"],
	run_case,
	once: Some(once),
	panics_are_violations: true,
	cpu_kill_secs: 60,
	max_workers: 16,
};

/// fixed probes for shapes the random generator deliberately leaves out
fn once(ctx: &mut Ctx) {
	use crate::refavro::schema::*;
	// a union with two duration branches: valid Avro (two differently named fixed types), but
	// serde_avro_fast names both branches `Duration`
	let rs = RSchema {
		nodes: vec![
			Node { kind: Kind::Union(vec![1, 2]), logical: None },
			Node { kind: Kind::Fixed { name: "DurA".into(), size: 12 }, logical: Some(Logical::Duration) },
			Node { kind: Kind::Fixed { name: "DurB".into(), size: 12 }, logical: Some(Logical::Duration) },
		],
	};
	let mut rng = Rng::new(1);
	if let (Ok(schema), _) = make_schema(&rs, SchemaVia::Builder, &mut rng) {
		let v = Val::Union(1, Box::new(Val::Duration(1, 2, 3)));
		let pres = Pres::canonical();
		let ok = match ser_datum(&schema, &rs, &v, &pres) {
			Ok(b) => decode_datum(&rs, &b).map(|(x, _)| x).ok().as_ref() == Some(&v),
			Err(_) => false,
		};
		ctx.count("probe:two-duration-branches");
		if !ok {
			ctx.violation(
				"probe union-with-two-duration-branches: second branch cannot be selected",
				u64::MAX,
				json!({"schema": rs.spell(None).compact(), "value": v.to_json(), "presentation": "newtype variant named Duration around a {months, days, milliseconds} struct"}),
			);
		}
	}
}

pub fn run_case(ctx: &mut Ctx, case_seed: u64) {
	let mut rng = Rng::new(case_seed);
	if rng.chance(1, 8) {
		return crate::props::fixtures::c01_fixture_case(ctx, case_seed, &mut rng);
	}
	if rng.chance(1, 40) {
		return deep_case(ctx, case_seed, &mut rng);
	}
	let mut cfg = SchemaGenCfg::default();
	cfg.max_nodes = *rng.pick(&[1, 4, 10, 24, 40]);
	let rs = gen_schema(&mut rng, &cfg);
	let via = pick_via(&mut rng);
	let (schema, text) = make_schema(&rs, via, &mut rng);
	let schema = match schema {
		Ok(s) => s,
		Err(e) => {
			ctx.violation(
				format!("schema-rejected via={via:?} err={}", err_sig(&e)),
				case_seed,
				json!({"schema": rs.spell(None).compact(), "text": text, "error": e}),
			);
			return;
		}
	};
	let mut vg = ValueGen::new(&rs);
	vg.allow_huge = rng.chance(1, 50);
	vg.budget = *rng.pick(&[5, 50, 400]);
	let v = vg.gen(&mut rng);
	let pres = Pres::random(&mut rng);
	roundtrip(ctx, case_seed, &rs, &schema, &v, &pres, &mut rng, text.as_deref());
}

pub fn roundtrip(
	ctx: &mut Ctx,
	case_seed: u64,
	rs: &crate::refavro::schema::RSchema,
	schema: &serde_avro_fast::Schema,
	v: &Val,
	pres: &Pres,
	rng: &mut Rng,
	text: Option<&str>,
) {
	let describe = |extra: serde_json::Value| {
		json!({
			"schema": rs.spell(None).compact(),
			"schema_text_used": text,
			"value": v.to_json(),
			"presentation": pres.describe(),
			"extra": extra,
		})
	};
	let bytes = match ser_datum(schema, rs, v, pres) {
		Ok(b) => b,
		Err(e) => {
			ctx.violation(format!("ser-err {}", err_sig(&e)), case_seed, describe(json!({"error": e})));
			return;
		}
	};
	// independent cross-check: bytes decode under the reference to v
	match decode_datum(rs, &bytes) {
		Ok((rv, used)) if &rv == v && used == bytes.len() => {}
		other => {
			ctx.violation(
				"ser-bytes-not-spec-encoding-of-value",
				case_seed,
				describe(json!({"bytes": hex(&bytes), "reference_decode": format!("{other:?}").chars().take(400).collect::<String>()})),
			);
			return;
		}
	}
	// the same datum streamed into a writer that takes only part of each write call
	if rng.chance(1, 4) {
		let (sched, native) = pick_datum_sink_schedule(rng);
		match ser_datum_sink(schema, rs, v, pres, sched.clone(), native) {
			Ok(b) if b == bytes => ctx.count("datum_into_short_writing_sink_equal"),
			other => {
				ctx.violation(
					"ser-bytes-depend-on-the-writer's-write-granularity",
					case_seed,
					describe(json!({"bytes_into_vec": hex(&bytes), "into_sink": format!("{:?}", other.map(|b| hex(&b))).chars().take(600).collect::<String>(), "schedule": sched, "native_write_vectored": native})),
				);
				return;
			}
		}
	}
	let mo = ModeOwned::random(rng);
	let lim = Limits::default();
	let out = de_slice_val(schema, rs, &bytes, &lim, &mo);
	match &out.res {
		Ok(got) if got == v && out.consumed == bytes.len() => {}
		other => {
			ctx.violation(
				format!(
					"de-slice-mismatch {}",
					match other {
						Err(e) => err_sig(e),
						Ok(_) => "wrong-value".into(),
					}
				),
				case_seed,
				describe(json!({"bytes": hex(&bytes), "target": mo.describe(), "got": format!("{:?}", other.as_ref().map(|x| x.to_json())).chars().take(600).collect::<String>(), "consumed": out.consumed})),
			);
			return;
		}
	}
	if out.stats.borrowed_outside_input > 0 {
		ctx.violation(
			"borrowed-data-outside-input",
			case_seed,
			describe(json!({"stats": format!("{:?}", out.stats)})),
		);
	}
	ctx.add("borrowed_visits", out.stats.borrowed);
	// reader
	let sched = schedule(rng, bytes.len());
	let out2 = de_reader_val(schema, rs, &bytes, sched.clone(), &lim, &mo);
	match &out2.res {
		Ok(got) if got == v && out2.consumed == bytes.len() && !out2.contract_broken => {}
		other => {
			ctx.violation(
				format!(
					"de-reader-mismatch {}",
					match other {
						Err(e) => err_sig(e),
						Ok(_) => "wrong-value-or-consumption".into(),
					}
				),
				case_seed,
				describe(json!({"bytes": hex(&bytes), "schedule": sched, "target": mo.describe(), "consumed": out2.consumed, "got": format!("{:?}", other.as_ref().map(|x| x.to_json())).chars().take(600).collect::<String>()})),
			);
			return;
		}
	}
	// deserialize_any
	let any = de_slice_any(schema, &bytes, &lim);
	let want = untyped(rs, 0, v);
	match &any.res {
		Ok(got) if *got == want => {}
		other => {
			ctx.violation(
				format!(
					"de-any-mismatch {}",
					match other {
						Err(e) => err_sig(e),
						Ok(_) => "wrong-value".into(),
					}
				),
				case_seed,
				describe(json!({"bytes": hex(&bytes), "got": format!("{other:?}").chars().take(600).collect::<String>(), "want": format!("{want:?}").chars().take(600).collect::<String>()})),
			);
			return;
		}
	}
	ctx.count("ok_roundtrips");
	ctx.max("value_depth", depth_cost(rs, 0, v) as u64);
	ctx.max("encoded_len", bytes.len() as u64);
	if rs.nodes.len() >= 2 {
		ctx.distinct_bytes(&[
			&shape_hash(rs).to_le_bytes(),
			&bytes,
			pres.describe().as_bytes(),
			mo.describe().as_bytes(),
		]);
	}
	ctx.sample(|| {
		json!({"schema": rs.spell(None).compact(), "value": v.to_json(), "presentation": pres.describe(), "target": mo.describe(), "bytes": hex(&bytes)})
	});
}

/// values nested exactly up to the documented depth limit (64) must round-trip
fn deep_case(ctx: &mut Ctx, case_seed: u64, rng: &mut Rng) {
	use crate::refavro::schema::*;
	// linked list: record{v:int, next: union[null, R]} costs 2 per level; nested arrays cost 1 per level
	let (rs, v) = if rng.coin() {
		let rs = RSchema {
			nodes: vec![
				Node {
					kind: Kind::Record {
						name: "L".into(),
						fields: vec![("v".into(), 1), ("next".into(), 2)],
					},
					logical: None,
				},
				Node { kind: Kind::Int, logical: None },
				Node {
					kind: Kind::Union(vec![3, 0]),
					logical: None,
				},
				Node { kind: Kind::Null, logical: None },
			],
		};
		// k records => depth cost 2k (each record + its union)
		let k = *rng.pick(&[1usize, 2, 16, 31, 32]);
		let mut v = Val::Record(vec![Val::Int(0), Val::Union(0, Box::new(Val::Null))]);
		for i in 1..k {
			v = Val::Record(vec![Val::Int(i as i32), Val::Union(1, Box::new(v))]);
		}
		(rs, v)
	} else {
		// array of array ... of int, n levels: schema nodes chained
		let n = *rng.pick(&[1usize, 8, 63, 64]);
		let mut nodes = Vec::new();
		for i in 0..n {
			nodes.push(Node {
				kind: Kind::Array(i + 1),
				logical: None,
			});
		}
		nodes.push(Node { kind: Kind::Int, logical: None });
		let mut v = Val::Int(7);
		for _ in 0..n {
			v = Val::Array(vec![v]);
		}
		(RSchema { nodes }, v)
	};
	let via = pick_via(rng);
	let (schema, text) = make_schema(&rs, via, rng);
	let schema = match schema {
		Ok(s) => s,
		Err(e) => {
			ctx.violation(format!("deep-schema-rejected {}", err_sig(&e)), case_seed, json!({"error": e, "text": text}));
			return;
		}
	};
	ctx.count("deep_cases");
	let pres = Pres::canonical();
	roundtrip(ctx, case_seed, &rs, &schema, &v, &pres, rng, text.as_deref());
}

#[allow(dead_code)]
pub fn debug_schema(case_seed: u64) {
	let mut rng = Rng::new(case_seed);
	let _ = rng.chance(1, 8);
	let _ = rng.chance(1, 40);
	let mut cfg = SchemaGenCfg::default();
	cfg.max_nodes = *rng.pick(&[1, 4, 10, 24, 40]);
	let rs = gen_schema(&mut rng, &cfg);
	for (i, n) in rs.nodes.iter().enumerate() {
		println!("{i}: {n:?}");
	}
}
