//! `Collect`: a DeserializeSeed that walks the reference schema in parallel with the
//! crate's deserializer and rebuilds a reference `Val`, recording what it observed.

use super::present::parse_decimal_string;
use crate::refavro::schema::*;
use crate::refavro::value::Val;
use serde::de::{DeserializeSeed, Deserializer, EnumAccess, Error, IgnoredAny, MapAccess, SeqAccess, VariantAccess, Visitor};
use std::cell::RefCell;
use std::collections::HashSet;
use std::fmt;

/// protects the harness' memory against (legitimately accepted) counts up to the default max_seq_size of 10^9
pub const HARNESS_SEQ_CAP: usize = 2_000_000;
thread_local! {
	static SEQ_CAP: std::cell::Cell<usize> = std::cell::Cell::new(HARNESS_SEQ_CAP);
}
/// monitors whose own values are small lower the cap (per worker thread) so that damaged counts cost less to refuse
pub fn set_seq_cap(n: usize) {
	SEQ_CAP.with(|c| c.set(n));
}
fn seq_cap() -> usize {
	SEQ_CAP.with(|c| c.get())
}

#[derive(Default, Debug, Clone)]
pub struct Stats {
	pub visits: u64,
	pub max_depth: usize,
	pub max_seq_len: usize,
	pub borrowed: u64,
	pub borrowed_outside_input: u64,
	pub input_range: (usize, usize),
	pub any_calls: u64,
}

#[derive(Clone, Copy, Debug, PartialEq, Eq)]
pub enum UnionVia {
	/// deserialize_enum: the variant name identifies the branch
	Enum,
	/// deserialize_option for 2-branch unions with null, enum otherwise
	OptionWhenNullable,
	/// deserialize_option around every union (what `Option<RustEnum>` does): None is the null branch when there is one,
	/// Some(..) hands the selected branch to the enum, which identifies it by the variant name it is given
	OptionAlways,
}
#[derive(Clone, Copy, Debug, PartialEq, Eq)]
pub enum EnumVia {
	Str,
	U64,
	EnumIdentifier,
}

pub struct Mode<'a> {
	pub union_via: UnionVia,
	pub enum_via: EnumVia,
	/// 0 tuple, 1 map/struct, 2 raw bytes
	pub duration_via: u8,
	/// ask for owned (string/byte_buf) rather than borrowed-capable hints
	pub owned_hints: bool,
	/// schema nodes to skip with IgnoredAny
	pub ignore: Option<&'a HashSet<Id>>,
	/// union branches (node ids of the union) read as unit variants (payload skipped)
	pub unit_variant_unions: Option<&'a HashSet<Id>>,
	pub stats: &'a RefCell<Stats>,
}

#[derive(Clone, Copy)]
pub struct Collect<'a> {
	pub s: &'a RSchema,
	pub id: Id,
	pub m: &'a Mode<'a>,
	pub depth: usize,
}

impl<'a> Collect<'a> {
	pub fn root(s: &'a RSchema, m: &'a Mode<'a>) -> Self {
		Collect { s, id: 0, m, depth: 0 }
	}
	fn at(&self, id: Id) -> Self {
		Collect {
			s: self.s,
			id,
			m: self.m,
			depth: self.depth + 1,
		}
	}
	fn note_visit(&self) {
		let mut st = self.m.stats.borrow_mut();
		st.visits += 1;
		if self.depth > st.max_depth {
			st.max_depth = self.depth;
		}
	}
	fn note_borrow(&self, ptr: *const u8, len: usize) {
		let mut st = self.m.stats.borrow_mut();
		st.borrowed += 1;
		let (lo, n) = st.input_range;
		let p = ptr as usize;
		if len > 0 && !(p >= lo && p + len <= lo + n) {
			st.borrowed_outside_input += 1;
		}
	}
}

impl<'de, 'a> DeserializeSeed<'de> for Collect<'a> {
	type Value = Val;
	fn deserialize<D: Deserializer<'de>>(self, d: D) -> Result<Val, D::Error> {
		if let Some(ig) = self.m.ignore {
			if ig.contains(&self.id) {
				d.deserialize_ignored_any(IgnoredAny)?;
				return Ok(Val::Null);
			}
		}
		let v = CV(self);
		match self.s.eff(self.id) {
			Eff::Null => d.deserialize_unit(v),
			Eff::Boolean => d.deserialize_bool(v),
			Eff::Int => d.deserialize_i32(v),
			Eff::Long => d.deserialize_i64(v),
			Eff::Float => d.deserialize_f32(v),
			Eff::Double => d.deserialize_f64(v),
			Eff::Bytes | Eff::Fixed(_) => {
				if self.m.owned_hints {
					d.deserialize_byte_buf(v)
				} else {
					d.deserialize_bytes(v)
				}
			}
			Eff::String => {
				if self.m.owned_hints {
					d.deserialize_string(v)
				} else {
					d.deserialize_str(v)
				}
			}
			Eff::Enum => match self.m.enum_via {
				EnumVia::Str => d.deserialize_str(v),
				EnumVia::U64 => d.deserialize_u64(v),
				EnumVia::EnumIdentifier => d.deserialize_enum("E", &[], v),
			},
			Eff::Array(_) => d.deserialize_seq(v),
			Eff::Map(_) => d.deserialize_map(v),
			Eff::Union(ref bs) => {
				let nullable2 = bs.len() == 2 && bs.iter().any(|&b| matches!(self.s.eff(b), Eff::Null));
				match self.m.union_via {
					UnionVia::OptionWhenNullable if nullable2 => d.deserialize_option(v),
					UnionVia::OptionAlways => d.deserialize_option(v),
					_ => d.deserialize_enum("U", &[], v),
				}
			}
			Eff::Record => d.deserialize_struct("R", &[], v),
			Eff::DecimalBytes { .. } | Eff::DecimalFixed { .. } | Eff::BigDecimal => d.deserialize_str(v),
			Eff::Duration => match self.m.duration_via {
				0 => d.deserialize_tuple(3, v),
				1 => d.deserialize_struct("Duration", &["months", "days", "milliseconds"], v),
				_ => d.deserialize_bytes(v),
			},
		}
	}
}

struct CV<'a>(Collect<'a>);

struct NameSeed;
impl<'de> DeserializeSeed<'de> for NameSeed {
	type Value = String;
	fn deserialize<D: Deserializer<'de>>(self, d: D) -> Result<String, D::Error> {
		struct V;
		impl<'de> Visitor<'de> for V {
			type Value = String;
			fn expecting(&self, f: &mut fmt::Formatter) -> fmt::Result {
				f.write_str("identifier")
			}
			fn visit_str<E: Error>(self, v: &str) -> Result<String, E> {
				Ok(v.to_owned())
			}
			fn visit_u64<E: Error>(self, v: u64) -> Result<String, E> {
				Ok(format!("#{v}"))
			}
			fn visit_bytes<E: Error>(self, v: &[u8]) -> Result<String, E> {
				Ok(String::from_utf8_lossy(v).into_owned())
			}
		}
		d.deserialize_identifier(V)
	}
}

struct U32Seed;
impl<'de> DeserializeSeed<'de> for U32Seed {
	type Value = u32;
	fn deserialize<D: Deserializer<'de>>(self, d: D) -> Result<u32, D::Error> {
		struct V;
		impl<'de> Visitor<'de> for V {
			type Value = u32;
			fn expecting(&self, f: &mut fmt::Formatter) -> fmt::Result {
				f.write_str("u32")
			}
			fn visit_u32<E: Error>(self, v: u32) -> Result<u32, E> {
				Ok(v)
			}
			fn visit_u64<E: Error>(self, v: u64) -> Result<u32, E> {
				u32::try_from(v).map_err(|_| E::custom("u32 overflow"))
			}
		}
		d.deserialize_u32(V)
	}
}

impl<'a> CV<'a> {
	fn eff(&self) -> Eff {
		self.0.s.eff(self.0.id)
	}
	fn wrong<E: Error, T>(&self, what: &str) -> Result<T, E> {
		Err(E::custom(format!(
			"harness: unexpected visit_{what} for reference node {} ({:?})",
			self.0.id,
			self.eff()
		)))
	}
	fn bytes_val<E: Error>(&self, b: &[u8]) -> Result<Val, E> {
		match self.eff() {
			Eff::Bytes => Ok(Val::Bytes(b.to_vec())),
			Eff::Fixed(_) => Ok(Val::Fixed(b.to_vec())),
			Eff::Duration if b.len() == 12 => Ok(Val::Duration(
				u32::from_le_bytes(b[0..4].try_into().unwrap()),
				u32::from_le_bytes(b[4..8].try_into().unwrap()),
				u32::from_le_bytes(b[8..12].try_into().unwrap()),
			)),
			_ => self.wrong("bytes"),
		}
	}
	fn str_val<E: Error>(&self, st: &str) -> Result<Val, E> {
		match self.eff() {
			Eff::String => Ok(Val::Str(st.to_owned())),
			Eff::Enum => match &self.0.s.node(self.0.id).kind {
				Kind::Enum { symbols, .. } => match symbols.iter().position(|x| x == st) {
					Some(i) => Ok(Val::Enum(i)),
					None => Err(E::custom(format!("harness: enum symbol {st:?} not in reference schema"))),
				},
				_ => self.wrong("str"),
			},
			Eff::DecimalBytes { scale } | Eff::DecimalFixed { scale, .. } => match parse_decimal_string(st) {
				Some((u, sc)) if sc == scale => Ok(Val::Decimal(u)),
				Some((u, sc)) if sc < scale => match 10i128.checked_pow(scale - sc).and_then(|p| u.checked_mul(p)) {
					Some(x) => Ok(Val::Decimal(x)),
					None => Err(E::custom("harness: decimal text out of range")),
				},
				_ => Err(E::custom(format!("harness: decimal text {st:?} does not have schema scale {scale}"))),
			},
			Eff::BigDecimal => match parse_decimal_string(st) {
				Some((u, sc)) => Ok(Val::BigDecimal(u, sc)),
				None => Err(E::custom(format!("harness: bad decimal text {st:?}"))),
			},
			_ => self.wrong("str"),
		}
	}
}

impl<'de, 'a> Visitor<'de> for CV<'a> {
	type Value = Val;
	fn expecting(&self, f: &mut fmt::Formatter) -> fmt::Result {
		write!(f, "a value for reference node {} ({:?})", self.0.id, self.eff())
	}
	fn visit_unit<E: Error>(self) -> Result<Val, E> {
		self.0.note_visit();
		match self.eff() {
			Eff::Null => Ok(Val::Null),
			_ => self.wrong("unit"),
		}
	}
	fn visit_bool<E: Error>(self, v: bool) -> Result<Val, E> {
		self.0.note_visit();
		match self.eff() {
			Eff::Boolean => Ok(Val::Bool(v)),
			_ => self.wrong("bool"),
		}
	}
	fn visit_i32<E: Error>(self, v: i32) -> Result<Val, E> {
		self.0.note_visit();
		match self.eff() {
			Eff::Int => Ok(Val::Int(v)),
			_ => self.wrong("i32"),
		}
	}
	fn visit_i64<E: Error>(self, v: i64) -> Result<Val, E> {
		self.0.note_visit();
		match self.eff() {
			Eff::Long => Ok(Val::Long(v)),
			_ => self.wrong("i64"),
		}
	}
	fn visit_u64<E: Error>(self, v: u64) -> Result<Val, E> {
		self.0.note_visit();
		match (self.eff(), &self.0.s.node(self.0.id).kind) {
			(Eff::Enum, Kind::Enum { symbols, .. }) if (v as usize) < symbols.len() => Ok(Val::Enum(v as usize)),
			(Eff::Enum, _) => Err(E::custom("harness: enum index out of reference range")),
			_ => self.wrong("u64"),
		}
	}
	fn visit_f32<E: Error>(self, v: f32) -> Result<Val, E> {
		self.0.note_visit();
		match self.eff() {
			Eff::Float => Ok(Val::Float(v.to_bits())),
			_ => self.wrong("f32"),
		}
	}
	fn visit_f64<E: Error>(self, v: f64) -> Result<Val, E> {
		self.0.note_visit();
		match self.eff() {
			Eff::Double => Ok(Val::Double(v.to_bits())),
			_ => self.wrong("f64"),
		}
	}
	fn visit_str<E: Error>(self, v: &str) -> Result<Val, E> {
		self.0.note_visit();
		self.str_val(v)
	}
	fn visit_borrowed_str<E: Error>(self, v: &'de str) -> Result<Val, E> {
		self.0.note_visit();
		self.0.note_borrow(v.as_ptr(), v.len());
		self.str_val(v)
	}
	fn visit_string<E: Error>(self, v: String) -> Result<Val, E> {
		self.0.note_visit();
		self.str_val(&v)
	}
	fn visit_bytes<E: Error>(self, v: &[u8]) -> Result<Val, E> {
		self.0.note_visit();
		self.bytes_val(v)
	}
	fn visit_borrowed_bytes<E: Error>(self, v: &'de [u8]) -> Result<Val, E> {
		self.0.note_visit();
		self.0.note_borrow(v.as_ptr(), v.len());
		self.bytes_val(v)
	}
	fn visit_byte_buf<E: Error>(self, v: Vec<u8>) -> Result<Val, E> {
		self.0.note_visit();
		self.bytes_val(&v)
	}
	fn visit_none<E: Error>(self) -> Result<Val, E> {
		self.0.note_visit();
		match self.eff() {
			Eff::Union(bs) => match bs.iter().position(|&b| matches!(self.0.s.eff(b), Eff::Null)) {
				Some(i) => Ok(Val::Union(i, Box::new(Val::Null))),
				None => self.wrong("none"),
			},
			_ => self.wrong("none"),
		}
	}
	fn visit_some<D: Deserializer<'de>>(self, d: D) -> Result<Val, D::Error> {
		self.0.note_visit();
		match self.eff() {
			Eff::Union(bs) if bs.len() == 2 && bs.iter().any(|&b| matches!(self.0.s.eff(b), Eff::Null)) => {
				match bs.iter().position(|&b| !matches!(self.0.s.eff(b), Eff::Null)) {
					Some(i) => Ok(Val::Union(i, Box::new(self.0.at(bs[i]).deserialize(d)?))),
					None => self.wrong("some"),
				}
			}
			// any other union: the content is an enum over the branches (Option<RustEnum>)
			Eff::Union(_) if self.0.m.union_via == UnionVia::OptionAlways => d.deserialize_enum("U", &[], CV(self.0)),
			_ => self.wrong("some"),
		}
	}
	fn visit_seq<A: SeqAccess<'de>>(self, mut seq: A) -> Result<Val, A::Error> {
		self.0.note_visit();
		match self.eff() {
			Eff::Array(item) => {
				let mut out = Vec::new();
				while let Some(x) = seq.next_element_seed(self.0.at(item))? {
					out.push(x);
					if out.len() > seq_cap() {
						return Err(A::Error::custom("harness: sequence longer than the harness is willing to hold"));
					}
					let mut st = self.0.m.stats.borrow_mut();
					if out.len() > st.max_seq_len {
						st.max_seq_len = out.len();
					}
				}
				Ok(Val::Array(out))
			}
			Eff::Duration => {
				let a = seq.next_element_seed(U32Seed)?;
				let b = seq.next_element_seed(U32Seed)?;
				let c = seq.next_element_seed(U32Seed)?;
				match (a, b, c) {
					(Some(a), Some(b), Some(c)) => {
						if seq.next_element_seed(U32Seed)?.is_some() {
							return Err(A::Error::custom("harness: duration with more than 3 elements"));
						}
						Ok(Val::Duration(a, b, c))
					}
					_ => Err(A::Error::custom("harness: duration with less than 3 elements")),
				}
			}
			_ => self.wrong("seq"),
		}
	}
	fn visit_map<A: MapAccess<'de>>(self, mut map: A) -> Result<Val, A::Error> {
		self.0.note_visit();
		match self.eff() {
			Eff::Map(item) => {
				let mut out = Vec::new();
				while let Some(k) = map.next_key::<String>()? {
					let v = map.next_value_seed(self.0.at(item))?;
					out.push((k, v));
					if out.len() > seq_cap() {
						return Err(A::Error::custom("harness: map longer than the harness is willing to hold"));
					}
					let mut st = self.0.m.stats.borrow_mut();
					if out.len() > st.max_seq_len {
						st.max_seq_len = out.len();
					}
				}
				Ok(Val::Map(out))
			}
			Eff::Record => match &self.0.s.node(self.0.id).kind {
				Kind::Record { fields, .. } => {
					let mut out = Vec::with_capacity(fields.len());
					for (fname, fid) in fields {
						match map.next_key_seed(NameSeed)? {
							Some(k) if &k == fname => {}
							Some(k) => {
								return Err(A::Error::custom(format!(
									"harness: record key {k:?} where reference expects {fname:?}"
								)))
							}
							None => return Err(A::Error::custom(format!("harness: record ended before field {fname:?}"))),
						}
						out.push(map.next_value_seed(self.0.at(*fid))?);
					}
					if let Some(k) = map.next_key_seed(NameSeed)? {
						return Err(A::Error::custom(format!("harness: extra record key {k:?}")));
					}
					Ok(Val::Record(out))
				}
				_ => self.wrong("map"),
			},
			Eff::Duration => {
				let mut vals = [None; 3];
				while let Some(k) = map.next_key_seed(NameSeed)? {
					let idx = match k.as_str() {
						"months" => 0,
						"days" => 1,
						"milliseconds" => 2,
						_ => return Err(A::Error::custom(format!("harness: duration key {k:?}"))),
					};
					vals[idx] = Some(map.next_value_seed(U32Seed)?);
				}
				match vals {
					[Some(a), Some(b), Some(c)] => Ok(Val::Duration(a, b, c)),
					_ => Err(A::Error::custom("harness: incomplete duration map")),
				}
			}
			_ => self.wrong("map"),
		}
	}
	fn visit_enum<A: EnumAccess<'de>>(self, data: A) -> Result<Val, A::Error> {
		self.0.note_visit();
		match self.eff() {
			Eff::Union(bs) => {
				let (name, variant) = data.variant_seed(NameSeed)?;
				let matches: Vec<usize> = bs
					.iter()
					.enumerate()
					.filter(|(_, &b)| self.0.s.branch_name(b) == name)
					.map(|(i, _)| i)
					.collect();
				if matches.len() != 1 {
					return Err(A::Error::custom(format!(
						"harness: variant name {name:?} identifies {} branches of the reference union",
						matches.len()
					)));
				}
				let i = matches[0];
				let as_unit = self.0.m.unit_variant_unions.map_or(false, |u| u.contains(&self.0.id));
				if as_unit {
					variant.unit_variant()?;
					Ok(Val::Union(i, Box::new(Val::Null)))
				} else {
					let inner = variant.newtype_variant_seed(self.0.at(bs[i]))?;
					Ok(Val::Union(i, Box::new(inner)))
				}
			}
			Eff::Enum => {
				let (name, variant) = data.variant_seed(NameSeed)?;
				variant.unit_variant()?;
				match &self.0.s.node(self.0.id).kind {
					Kind::Enum { symbols, .. } => match symbols.iter().position(|x| *x == name) {
						Some(i) => Ok(Val::Enum(i)),
						None => Err(A::Error::custom(format!("harness: enum symbol {name:?} not in reference schema"))),
					},
					_ => self.wrong("enum"),
				}
			}
			_ => self.wrong("enum"),
		}
	}
}

// ---------------------------------------------------------------- untyped collector (deserialize_any only)

/// Shape-only value produced through `deserialize_any`
#[derive(Clone, Debug, PartialEq)]
pub enum U {
	Unit,
	Bool(bool),
	I(i64),
	UI(u64),
	F32(u32),
	F64(u64),
	Bytes(Vec<u8>),
	Str(String),
	Seq(Vec<U>),
	Map(Vec<(U, U)>),
}

pub struct AnySeed<'a> {
	pub stats: &'a RefCell<Stats>,
	pub depth: usize,
}
impl<'de, 'a> DeserializeSeed<'de> for AnySeed<'a> {
	type Value = U;
	fn deserialize<D: Deserializer<'de>>(self, d: D) -> Result<U, D::Error> {
		self.stats.borrow_mut().any_calls += 1;
		d.deserialize_any(self)
	}
}
impl<'de, 'a> Visitor<'de> for AnySeed<'a> {
	type Value = U;
	fn expecting(&self, f: &mut fmt::Formatter) -> fmt::Result {
		f.write_str("anything")
	}
	fn visit_unit<E: Error>(self) -> Result<U, E> {
		Ok(U::Unit)
	}
	fn visit_bool<E: Error>(self, v: bool) -> Result<U, E> {
		Ok(U::Bool(v))
	}
	fn visit_i32<E: Error>(self, v: i32) -> Result<U, E> {
		Ok(U::I(v as i64))
	}
	fn visit_i64<E: Error>(self, v: i64) -> Result<U, E> {
		Ok(U::I(v))
	}
	fn visit_u32<E: Error>(self, v: u32) -> Result<U, E> {
		Ok(U::UI(v as u64))
	}
	fn visit_u64<E: Error>(self, v: u64) -> Result<U, E> {
		Ok(U::UI(v))
	}
	fn visit_f32<E: Error>(self, v: f32) -> Result<U, E> {
		Ok(U::F32(v.to_bits()))
	}
	fn visit_f64<E: Error>(self, v: f64) -> Result<U, E> {
		Ok(U::F64(v.to_bits()))
	}
	fn visit_str<E: Error>(self, v: &str) -> Result<U, E> {
		Ok(U::Str(v.to_owned()))
	}
	fn visit_bytes<E: Error>(self, v: &[u8]) -> Result<U, E> {
		Ok(U::Bytes(v.to_vec()))
	}
	fn visit_none<E: Error>(self) -> Result<U, E> {
		Ok(U::Unit)
	}
	fn visit_some<D: Deserializer<'de>>(self, d: D) -> Result<U, D::Error> {
		AnySeed {
			stats: self.stats,
			depth: self.depth + 1,
		}
		.deserialize(d)
	}
	fn visit_seq<A: SeqAccess<'de>>(self, mut seq: A) -> Result<U, A::Error> {
		let mut out = Vec::new();
		{
			let mut st = self.stats.borrow_mut();
			if self.depth + 1 > st.max_depth {
				st.max_depth = self.depth + 1;
			}
		}
		while let Some(x) = seq.next_element_seed(AnySeed {
			stats: self.stats,
			depth: self.depth + 1,
		})? {
			out.push(x);
			if out.len() > seq_cap() {
				return Err(A::Error::custom("harness: sequence longer than the harness is willing to hold"));
			}
			let mut st = self.stats.borrow_mut();
			if out.len() > st.max_seq_len {
				st.max_seq_len = out.len();
			}
		}
		Ok(U::Seq(out))
	}
	fn visit_map<A: MapAccess<'de>>(self, mut map: A) -> Result<U, A::Error> {
		let mut out = Vec::new();
		{
			let mut st = self.stats.borrow_mut();
			if self.depth + 1 > st.max_depth {
				st.max_depth = self.depth + 1;
			}
		}
		while let Some(k) = map.next_key_seed(AnySeed {
			stats: self.stats,
			depth: self.depth + 1,
		})? {
			let v = map.next_value_seed(AnySeed {
				stats: self.stats,
				depth: self.depth + 1,
			})?;
			out.push((k, v));
			if out.len() > seq_cap() {
				return Err(A::Error::custom("harness: map longer than the harness is willing to hold"));
			}
			let mut st = self.stats.borrow_mut();
			if out.len() > st.max_seq_len {
				st.max_seq_len = out.len();
			}
		}
		Ok(U::Map(out))
	}
}

/// What `deserialize_any` is expected to show for a reference value
pub fn untyped(s: &RSchema, id: Id, v: &Val) -> U {
	use super::present::decimal_to_string;
	match (s.eff(id), v) {
		(_, Val::Null) => U::Unit,
		(_, Val::Bool(b)) => U::Bool(*b),
		(_, Val::Int(i)) => U::I(*i as i64),
		(_, Val::Long(i)) => U::I(*i),
		(_, Val::Float(b)) => U::F32(*b),
		(_, Val::Double(b)) => U::F64(*b),
		(_, Val::Bytes(b)) | (_, Val::Fixed(b)) => U::Bytes(b.clone()),
		(_, Val::Str(x)) => U::Str(x.clone()),
		(_, Val::Enum(i)) => match &s.node(id).kind {
			Kind::Enum { symbols, .. } => U::Str(symbols[*i].clone()),
			_ => U::Unit,
		},
		(Eff::Array(item), Val::Array(xs)) => U::Seq(xs.iter().map(|x| untyped(s, item, x)).collect()),
		(Eff::Map(item), Val::Map(es)) => U::Map(
			es.iter()
				.map(|(k, x)| (U::Str(k.clone()), untyped(s, item, x)))
				.collect(),
		),
		(Eff::Union(bs), Val::Union(i, x)) => untyped(s, bs[*i], x),
		(Eff::Record, Val::Record(xs)) => match &s.node(id).kind {
			Kind::Record { fields, .. } => U::Map(
				fields
					.iter()
					.zip(xs)
					.map(|((n, fid), x)| (U::Str(n.clone()), untyped(s, *fid, x)))
					.collect(),
			),
			_ => U::Unit,
		},
		(Eff::DecimalBytes { scale }, Val::Decimal(u)) | (Eff::DecimalFixed { scale, .. }, Val::Decimal(u)) => {
			U::Str(decimal_to_string(*u, scale))
		}
		(_, Val::BigDecimal(u, sc)) => U::Str(decimal_to_string(*u, *sc)),
		(_, Val::Duration(a, b, c)) => U::Map(vec![
			(U::Str("months".into()), U::UI(*a as u64)),
			(U::Str("days".into()), U::UI(*b as u64)),
			(U::Str("milliseconds".into()), U::UI(*c as u64)),
		]),
		_ => U::Unit,
	}
}

/// Replace ignored sub-trees by Null so that expected and observed values are comparable
pub fn erase(s: &RSchema, id: Id, v: &Val, ignore: &HashSet<Id>, unit_unions: &HashSet<Id>) -> Val {
	if ignore.contains(&id) {
		return Val::Null;
	}
	match (s.eff(id), v) {
		(Eff::Array(item), Val::Array(xs)) => Val::Array(xs.iter().map(|x| erase(s, item, x, ignore, unit_unions)).collect()),
		(Eff::Map(item), Val::Map(es)) => Val::Map(
			es.iter()
				.map(|(k, x)| (k.clone(), erase(s, item, x, ignore, unit_unions)))
				.collect(),
		),
		(Eff::Union(bs), Val::Union(i, x)) => {
			if unit_unions.contains(&id) {
				Val::Union(*i, Box::new(Val::Null))
			} else {
				Val::Union(*i, Box::new(erase(s, bs[*i], x, ignore, unit_unions)))
			}
		}
		(Eff::Record, Val::Record(xs)) => match &s.node(id).kind {
			Kind::Record { fields, .. } => Val::Record(
				fields
					.iter()
					.zip(xs)
					.map(|((_, fid), x)| erase(s, *fid, x, ignore, unit_unions))
					.collect(),
			),
			_ => v.clone(),
		},
		_ => v.clone(),
	}
}
