//! `Present`: show a reference value to a serde Serializer under a chosen presentation.

use crate::refavro::schema::*;
use crate::refavro::value::Val;
use crate::rng::Rng;
use serde::ser::{Serialize, SerializeMap, SerializeSeq, SerializeStruct, SerializeTuple, Serializer};
use std::cell::RefCell;
use std::collections::HashSet;
use std::sync::Mutex;

static INTERNED: Mutex<Option<HashSet<&'static str>>> = Mutex::new(None);

/// serde wants `&'static str` names; the set of names is bounded by the generators' pools
pub fn intern(s: &str) -> &'static str {
	let mut g = INTERNED.lock().unwrap();
	let set = g.get_or_insert_with(HashSet::new);
	if let Some(x) = set.get(s) {
		return x;
	}
	let leaked: &'static str = Box::leak(s.to_owned().into_boxed_str());
	set.insert(leaked);
	leaked
}

#[derive(Clone, Copy, Debug, PartialEq, Eq)]
pub enum UnionSel {
	/// always by branch name (newtype variant)
	ByName,
	/// by type when exactly one branch can accept the serde type at all, else by name
	ByTypeWhenUnambiguous,
	/// additionally by type when the branch is the plain Avro type of the very serde call made for the value
	/// (i32 -> int, i64 -> long, f32 -> float, f64 -> double, str -> string, bool, unit; not byte slices, for which the
	/// crate documents bytes and fixed branches as equally suitable): a valid union holds at
	/// most one branch of each unnamed type, so that branch is determined by the type even when other branches could also
	/// take the value with a conversion (long, float, double, decimals for an i32; an enum for a str; ...)
	ByExactType,
}
#[derive(Clone, Copy, Debug, PartialEq, Eq)]
pub enum RecordAs {
	Struct,
	Map,
	MapSplitKeyValue,
}
#[derive(Clone, Copy, Debug, PartialEq, Eq)]
pub enum FieldOrder {
	Schema,
	Reversed,
	Shuffled,
}

/// Presentation policy; choices that vary per node are drawn from `rng` (deterministic
/// because traversal order is).
pub struct Pres {
	pub union_sel: UnionSel,
	pub record_as: RecordAs,
	pub field_order: FieldOrder,
	/// omit fields whose value is null (schema null or union branch null) with this probability /8
	pub omit_null_fields: u32,
	/// give exact length hints for seq/map (false => None)
	pub exact_len_hint: bool,
	/// present record union branches directly as struct named by fullname (no newtype wrapper)
	pub struct_name_selects_branch: bool,
	/// enums as str instead of unit variant
	pub enum_as_str: bool,
	/// bytes / fixed as a sequence of u8 (needs allow_slow_sequence_to_bytes)
	pub bytes_as_seq: bool,
	/// durations as: 0 struct, 1 tuple, 2 raw bytes, 3 map
	pub duration_as: u8,
	/// sequences with a known length (arrays, byte sequences) through serialize_tuple
	pub seq_as_tuple: bool,
	/// added to the symbol's position to form the serde `variant_index` of a unit variant: a Rust enum declares its
	/// variants in its own order, which need not be the schema's (selection is by variant name)
	pub unit_variant_index_offset: u32,
	pub rng: RefCell<Rng>,
}

impl Pres {
	pub fn canonical() -> Pres {
		Pres {
			union_sel: UnionSel::ByName,
			record_as: RecordAs::Struct,
			field_order: FieldOrder::Schema,
			omit_null_fields: 0,
			exact_len_hint: true,
			struct_name_selects_branch: false,
			enum_as_str: false,
			bytes_as_seq: false,
			duration_as: 0,
			seq_as_tuple: false,
			unit_variant_index_offset: 0,
			rng: RefCell::new(Rng::new(0)),
		}
	}
	/// canonical except for the order in which record fields are presented (and whether null fields are left out):
	/// what changes which of the serializer's buffering paths a record goes through, not what is written
	pub fn canonical_reordered(rng: &mut Rng) -> Pres {
		let mut p = Pres::canonical();
		p.field_order = *rng.pick(&[FieldOrder::Schema, FieldOrder::Reversed, FieldOrder::Shuffled]);
		p.record_as = *rng.pick(&[RecordAs::Struct, RecordAs::Struct, RecordAs::Map]);
		p.rng = RefCell::new(rng.fork());
		p
	}
	pub fn random(rng: &mut Rng) -> Pres {
		Pres {
			union_sel: *rng.pick(&[UnionSel::ByName, UnionSel::ByName, UnionSel::ByTypeWhenUnambiguous, UnionSel::ByExactType]),
			record_as: *rng.pick(&[RecordAs::Struct, RecordAs::Struct, RecordAs::Map, RecordAs::MapSplitKeyValue]),
			field_order: *rng.pick(&[FieldOrder::Schema, FieldOrder::Schema, FieldOrder::Reversed, FieldOrder::Shuffled]),
			omit_null_fields: *rng.pick(&[0, 0, 4, 8]),
			exact_len_hint: rng.chance(3, 4),
			struct_name_selects_branch: rng.coin(),
			enum_as_str: rng.chance(1, 4),
			bytes_as_seq: false,
			duration_as: rng.below(4) as u8,
			seq_as_tuple: rng.chance(1, 5),
			unit_variant_index_offset: *rng.pick(&[0u32, 0, 1, 2, 5]),
			rng: RefCell::new(rng.fork()),
		}
	}
	pub fn describe(&self) -> String {
		format!(
			"union={:?} record={:?} order={:?} omit_null={}/8 len_hint={} struct_name_selects={} enum_as_str={} bytes_as_seq={} duration_as={} seq_as_tuple={} unit_variant_index_offset={}",
			self.union_sel,
			self.record_as,
			self.field_order,
			self.omit_null_fields,
			self.exact_len_hint,
			self.struct_name_selects_branch,
			self.enum_as_str,
			self.bytes_as_seq,
			self.duration_as,
			self.seq_as_tuple,
			self.unit_variant_index_offset
		)
	}
}

/// Families of serde calls, for the "can this branch accept that serde type at all" question.
#[derive(Clone, Copy, PartialEq, Eq, Debug)]
pub enum SerdeShape {
	Unit,
	Bool,
	Integer,
	F32,
	F64,
	Str,
	Bytes,
	Seq,
	MapOrStruct,
	UnitVariant,
}

/// Generous (crate-independent) table: could an Avro node of this kind conceivably take a
/// value presented with that serde shape?
pub fn could_accept(e: &Eff, shape: SerdeShape) -> bool {
	use SerdeShape::*;
	match shape {
		Unit => matches!(e, Eff::Null),
		Bool => matches!(e, Eff::Boolean),
		Integer => matches!(
			e,
			Eff::Int
				| Eff::Long | Eff::Float
				| Eff::Double | Eff::DecimalBytes { .. }
				| Eff::DecimalFixed { .. }
				| Eff::BigDecimal | Eff::Enum
		),
		F32 | F64 => matches!(
			e,
			Eff::Float | Eff::Double | Eff::DecimalBytes { .. } | Eff::DecimalFixed { .. } | Eff::BigDecimal
		),
		Str => matches!(
			e,
			Eff::String
				| Eff::Bytes | Eff::Enum
				| Eff::Fixed(_) | Eff::DecimalBytes { .. }
				| Eff::DecimalFixed { .. }
				| Eff::BigDecimal
		),
		Bytes => matches!(
			e,
			Eff::Bytes
				| Eff::String | Eff::Fixed(_)
				| Eff::Duration | Eff::DecimalBytes { .. }
				| Eff::DecimalFixed { .. }
				| Eff::BigDecimal
		),
		Seq => matches!(e, Eff::Array(_) | Eff::Bytes | Eff::Fixed(_) | Eff::Duration | Eff::String),
		MapOrStruct => matches!(e, Eff::Map(_) | Eff::Record | Eff::Duration),
		UnitVariant => matches!(e, Eff::Enum | Eff::String | Eff::Bytes | Eff::Null),
	}
}

pub struct Present<'a> {
	pub s: &'a RSchema,
	pub id: Id,
	pub v: &'a Val,
	pub p: &'a Pres,
}

impl<'a> Present<'a> {
	pub fn new(s: &'a RSchema, v: &'a Val, p: &'a Pres) -> Self {
		Present { s, id: 0, v, p }
	}
	fn at(&self, id: Id, v: &'a Val) -> Present<'a> {
		Present {
			s: self.s,
			id,
			v,
			p: self.p,
		}
	}
	/// serde shape this node will be presented with (ignoring an enclosing union)
	fn shape(&self) -> SerdeShape {
		match self.s.eff(self.id) {
			Eff::Null => SerdeShape::Unit,
			Eff::Boolean => SerdeShape::Bool,
			Eff::Int | Eff::Long => SerdeShape::Integer,
			Eff::Float => SerdeShape::F32,
			Eff::Double => SerdeShape::F64,
			Eff::Bytes | Eff::Fixed(_) => {
				if self.p.bytes_as_seq {
					SerdeShape::Seq
				} else {
					SerdeShape::Bytes
				}
			}
			Eff::String => SerdeShape::Str,
			Eff::Enum => {
				if self.p.enum_as_str {
					SerdeShape::Str
				} else {
					SerdeShape::UnitVariant
				}
			}
			Eff::Array(_) => SerdeShape::Seq,
			Eff::Map(_) | Eff::Record => SerdeShape::MapOrStruct,
			Eff::Union(_) => SerdeShape::Unit,
			Eff::DecimalBytes { .. } | Eff::DecimalFixed { .. } | Eff::BigDecimal => SerdeShape::Str,
			Eff::Duration => match self.p.duration_as {
				0 | 3 => SerdeShape::MapOrStruct,
				1 => SerdeShape::Seq,
				_ => SerdeShape::Bytes,
			},
		}
	}
}

pub fn decimal_to_string(unscaled: i128, scale: u32) -> String {
	let neg = unscaled < 0;
	let mut digits = unscaled.unsigned_abs().to_string();
	let scale = scale as usize;
	if scale > 0 {
		if digits.len() <= scale {
			let pad = scale + 1 - digits.len();
			digits = "0".repeat(pad) + &digits;
		}
		let cut = digits.len() - scale;
		digits = format!("{}.{}", &digits[..cut], &digits[cut..]);
	}
	if neg {
		format!("-{digits}")
	} else {
		digits
	}
}

/// parse "-12.50" => (-1250, 2)
pub fn parse_decimal_string(s: &str) -> Option<(i128, u32)> {
	let (neg, body) = match s.strip_prefix('-') {
		Some(r) => (true, r),
		None => (false, s),
	};
	let (int_part, frac_part) = match body.split_once('.') {
		Some((a, b)) => (a, b),
		None => (body, ""),
	};
	if int_part.is_empty() || !int_part.bytes().all(|b| b.is_ascii_digit()) || !frac_part.bytes().all(|b| b.is_ascii_digit())
	{
		return None;
	}
	let all = format!("{int_part}{frac_part}");
	let mag: i128 = all.parse().ok()?;
	Some((if neg { -mag } else { mag }, frac_part.len() as u32))
}

struct DurationStruct(u32, u32, u32);
impl Serialize for DurationStruct {
	fn serialize<S: Serializer>(&self, ser: S) -> Result<S::Ok, S::Error> {
		let mut st = ser.serialize_struct("Duration", 3)?;
		st.serialize_field("months", &self.0)?;
		st.serialize_field("days", &self.1)?;
		st.serialize_field("milliseconds", &self.2)?;
		st.end()
	}
}
struct DurationMap(u32, u32, u32);
impl Serialize for DurationMap {
	fn serialize<S: Serializer>(&self, ser: S) -> Result<S::Ok, S::Error> {
		let mut st = ser.serialize_map(Some(3))?;
		st.serialize_entry("days", &self.1)?;
		st.serialize_entry("months", &self.0)?;
		st.serialize_entry("milliseconds", &self.2)?;
		st.end()
	}
}

pub struct BytesAsBytes<'a>(pub &'a [u8]);
impl Serialize for BytesAsBytes<'_> {
	fn serialize<S: Serializer>(&self, ser: S) -> Result<S::Ok, S::Error> {
		ser.serialize_bytes(self.0)
	}
}

impl<'a> Serialize for Present<'a> {
	fn serialize<S: Serializer>(&self, ser: S) -> Result<S::Ok, S::Error> {
		use serde::ser::Error;
		let mismatch = || S::Error::custom("harness: value does not conform to reference schema");
		match (self.s.eff(self.id), self.v) {
			(Eff::Null, Val::Null) => ser.serialize_unit(),
			(Eff::Boolean, Val::Bool(b)) => ser.serialize_bool(*b),
			(Eff::Int, Val::Int(i)) => ser.serialize_i32(*i),
			(Eff::Long, Val::Long(i)) => ser.serialize_i64(*i),
			(Eff::Float, Val::Float(b)) => ser.serialize_f32(f32::from_bits(*b)),
			(Eff::Double, Val::Double(b)) => ser.serialize_f64(f64::from_bits(*b)),
			(Eff::Bytes, Val::Bytes(b)) | (Eff::Fixed(_), Val::Fixed(b)) => {
				if self.p.bytes_as_seq && self.p.seq_as_tuple {
					let mut t = ser.serialize_tuple(b.len())?;
					for x in b {
						t.serialize_element(x)?;
					}
					t.end()
				} else if self.p.bytes_as_seq {
					let hint = if self.p.exact_len_hint { Some(b.len()) } else { None };
					let mut sq = ser.serialize_seq(hint)?;
					for x in b {
						sq.serialize_element(x)?;
					}
					sq.end()
				} else {
					ser.serialize_bytes(b)
				}
			}
			(Eff::String, Val::Str(st)) => ser.serialize_str(st),
			(Eff::Enum, Val::Enum(i)) => match &self.s.node(self.id).kind {
				Kind::Enum { symbols, .. } if *i >= symbols.len() => Untyped(self.v, self.p).serialize(ser),
				Kind::Enum { name, symbols } => {
					if self.p.enum_as_str {
						ser.serialize_str(&symbols[*i])
					} else {
						ser.serialize_unit_variant(intern(split_fullname(name).1), *i as u32 + self.p.unit_variant_index_offset, intern(&symbols[*i]))
					}
				}
				_ => Err(mismatch()),
			},
			(Eff::Array(item), Val::Array(xs)) if self.p.seq_as_tuple => {
				let mut t = ser.serialize_tuple(xs.len())?;
				for x in xs {
					t.serialize_element(&self.at(item, x))?;
				}
				t.end()
			}
			(Eff::Array(item), Val::Array(xs)) => {
				let hint = if self.p.exact_len_hint { Some(xs.len()) } else { None };
				let mut sq = ser.serialize_seq(hint)?;
				for x in xs {
					sq.serialize_element(&self.at(item, x))?;
				}
				sq.end()
			}
			(Eff::Map(item), Val::Map(es)) => {
				let hint = if self.p.exact_len_hint { Some(es.len()) } else { None };
				let mut m = ser.serialize_map(hint)?;
				for (k, x) in es {
					m.serialize_entry(k, &self.at(item, x))?;
				}
				m.end()
			}
			(Eff::Union(branches), Val::Union(i, inner)) if *i < branches.len() => {
				let b = branches[*i];
				let child = self.at(b, inner);
				let by_type = match self.p.union_sel {
					UnionSel::ByName => false,
					UnionSel::ByTypeWhenUnambiguous => {
						let shape = child.shape();
						let n = branches
							.iter()
							.filter(|&&x| could_accept(&self.s.eff(x), shape))
							.count();
						n == 1 && could_accept(&self.s.eff(b), shape)
					}
					UnionSel::ByExactType => {
						let shape = child.shape();
						let n = branches
							.iter()
							.filter(|&&x| could_accept(&self.s.eff(x), shape))
							.count();
						(n == 1 && could_accept(&self.s.eff(b), shape))
							|| matches!(self.s.eff(b), Eff::Null | Eff::Boolean | Eff::Int | Eff::Long | Eff::Float | Eff::Double | Eff::String)
					}
				};
				if by_type {
					if matches!(self.s.eff(b), Eff::Null) && self.p.rng.borrow_mut().coin() {
						ser.serialize_none()
					} else if !matches!(self.s.eff(b), Eff::Null) && self.p.rng.borrow_mut().coin() {
						ser.serialize_some(&child)
					} else {
						child.serialize(ser)
					}
				} else if self.p.struct_name_selects_branch
					&& matches!(self.s.eff(b), Eff::Record)
					&& self.p.record_as == RecordAs::Struct
				{
					// a struct named by the record's fullname selects the branch by itself
					child.serialize(ser)
				} else {
					let name = self.s.branch_name(b);
					ser.serialize_newtype_variant("Union", *i as u32, intern(&name), &child)
				}
			}
			(Eff::Record, Val::Record(vals))
				if matches!(&self.s.node(self.id).kind, Kind::Record { fields, .. } if fields.len() == vals.len()) =>
			{
				match &self.s.node(self.id).kind {
				Kind::Record { name, fields } => {
					let mut order: Vec<usize> = (0..fields.len()).collect();
					match self.p.field_order {
						FieldOrder::Schema => {}
						FieldOrder::Reversed => order.reverse(),
						FieldOrder::Shuffled => self.p.rng.borrow_mut().shuffle(&mut order),
					}
					if self.p.omit_null_fields > 0 {
						order.retain(|&k| {
							let is_null = match (&self.s.eff(fields[k].1), &vals[k]) {
								(Eff::Null, _) => true,
								(Eff::Union(bs), Val::Union(bi, _)) => matches!(self.s.eff(bs[*bi]), Eff::Null),
								_ => false,
							};
							!(is_null && self.p.rng.borrow_mut().chance(self.p.omit_null_fields, 8))
						});
					}
					match self.p.record_as {
						RecordAs::Struct => {
							let mut st = ser.serialize_struct(intern(name), order.len())?;
							for k in order {
								st.serialize_field(intern(&fields[k].0), &self.at(fields[k].1, &vals[k]))?;
							}
							st.end()
						}
						RecordAs::Map => {
							let mut m = ser.serialize_map(Some(order.len()))?;
							for k in order {
								m.serialize_entry(&fields[k].0, &self.at(fields[k].1, &vals[k]))?;
							}
							m.end()
						}
						RecordAs::MapSplitKeyValue => {
							let mut m = ser.serialize_map(None)?;
							for k in order {
								m.serialize_key(&fields[k].0)?;
								m.serialize_value(&self.at(fields[k].1, &vals[k]))?;
							}
							m.end()
						}
					}
				}
				_ => Err(mismatch()),
				}
			}
			(Eff::DecimalBytes { scale }, Val::Decimal(u)) | (Eff::DecimalFixed { scale, .. }, Val::Decimal(u)) => {
				ser.serialize_str(&decimal_to_string(*u, scale))
			}
			(Eff::BigDecimal, Val::BigDecimal(u, scale)) => ser.serialize_str(&decimal_to_string(*u, *scale)),
			(Eff::Duration, Val::Duration(a, b, c)) => match self.p.duration_as {
				0 => DurationStruct(*a, *b, *c).serialize(ser),
				1 => {
					let mut t = ser.serialize_tuple(3)?;
					t.serialize_element(a)?;
					t.serialize_element(b)?;
					t.serialize_element(c)?;
					t.end()
				}
				2 => {
					let mut raw = Vec::with_capacity(12);
					raw.extend_from_slice(&a.to_le_bytes());
					raw.extend_from_slice(&b.to_le_bytes());
					raw.extend_from_slice(&c.to_le_bytes());
					ser.serialize_bytes(&raw)
				}
				_ => DurationMap(*a, *b, *c).serialize(ser),
			},
			// the value does not fit the node: show it to the serializer in its own natural shape, so
			// that the mismatch is detected (or not) by the code under test
			_ => {
				let _ = mismatch;
				Untyped(self.v, self.p).serialize(ser)
			}
		}
	}
}

/// a value presented without any knowledge of the schema
pub struct Untyped<'a>(pub &'a Val, pub &'a Pres);
impl<'a> Serialize for Untyped<'a> {
	fn serialize<S: Serializer>(&self, ser: S) -> Result<S::Ok, S::Error> {
		let p = self.1;
		match self.0 {
			Val::Null => ser.serialize_unit(),
			Val::Bool(b) => ser.serialize_bool(*b),
			Val::Int(i) => ser.serialize_i32(*i),
			Val::Long(i) => ser.serialize_i64(*i),
			Val::Float(b) => ser.serialize_f32(f32::from_bits(*b)),
			Val::Double(b) => ser.serialize_f64(f64::from_bits(*b)),
			Val::Bytes(b) | Val::Fixed(b) => ser.serialize_bytes(b),
			Val::Str(x) => ser.serialize_str(x),
			Val::Enum(i) => ser.serialize_u32(*i as u32),
			Val::Array(xs) => {
				if p.seq_as_tuple {
					let mut t = ser.serialize_tuple(xs.len())?;
					for x in xs {
						t.serialize_element(&Untyped(x, p))?;
					}
					t.end()
				} else {
					let mut sq = ser.serialize_seq(Some(xs.len()))?;
					for x in xs {
						sq.serialize_element(&Untyped(x, p))?;
					}
					sq.end()
				}
			}
			Val::Map(es) => {
				let mut m = ser.serialize_map(Some(es.len()))?;
				for (k, x) in es {
					m.serialize_entry(k, &Untyped(x, p))?;
				}
				m.end()
			}
			Val::Union(_, x) => Untyped(x, p).serialize(ser),
			Val::Record(xs) => {
				let mut st = ser.serialize_struct("Anon", xs.len())?;
				for (i, x) in xs.iter().enumerate() {
					st.serialize_field(intern(&format!("f{i}")), &Untyped(x, p))?;
				}
				st.end()
			}
			Val::Decimal(u) => ser.serialize_str(&decimal_to_string(*u, 0)),
			Val::BigDecimal(u, sc) => ser.serialize_str(&decimal_to_string(*u, *sc)),
			Val::Duration(a, b, c) => match p.duration_as {
				0 => DurationStruct(*a, *b, *c).serialize(ser),
				2 => {
					let mut raw = Vec::with_capacity(12);
					raw.extend_from_slice(&a.to_le_bytes());
					raw.extend_from_slice(&b.to_le_bytes());
					raw.extend_from_slice(&c.to_le_bytes());
					ser.serialize_bytes(&raw)
				}
				3 => DurationMap(*a, *b, *c).serialize(ser),
				_ => {
					let mut t = ser.serialize_tuple(3)?;
					t.serialize_element(a)?;
					t.serialize_element(b)?;
					t.serialize_element(c)?;
					t.end()
				}
			},
		}
	}
}
