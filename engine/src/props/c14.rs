//! C14 — reusing a serializer configuration never changes output; failures leave it clean.

use crate::bridge::present::{FieldOrder, Pres, Present, RecordAs};
use crate::gen::schema::{gen_schema, shape_hash, SchemaGenCfg};
use crate::gen::value::ValueGen;
use crate::io::FailAfter;
use crate::refavro::schema::*;
use crate::refavro::value::*;
use crate::rng::Rng;
use crate::run::{Ctx, PropSpec};
use crate::sut::*;
use serde_avro_fast::ser::{SerializerConfig, SerializerState};
use serde_json::json;

pub const SPEC: PropSpec = PropSpec {
	id: "C14",
	level: "exploration",
	rule: "case = history of 0..8 operations on ONE SerializerConfig (allow_slow_sequence_to_bytes on in half of the cases) drawn from {successful serialization with shuffled / reversed field order and unknown-length byte sequences, failure raised inside the value at a random depth (a sub-value that does not fit its node: inside buffered out-of-order fields, array elements, byte sequences), sink I/O error after n bytes for n swept over 0..encoded length, through to_datum / SerializerState::with_owned_config / the container Writer sharing the config}, followed by a probe serialization; oracle: probe bytes == bytes from a fresh configuration (== reference encoding), no panic (pool assert!/expect/unreachable!); distinct by hash(schema shape, history kinds, probe bytes)",
	assumptions: &["the pool invariant itself (every pooled buffer empty) is additionally read through hook H3 when the crate is built with the verif cfg"],
	cases: (50_000_000, 4_000_000_000),
	secs: (30, 600),
	required: &["probe_equal", "history:fail-in-value", "history:sink-error", "history:ok", "probes_after_failure", "pool_snapshots"],
	run_case,
	once: None,
	panics_are_violations: true,
	cpu_kill_secs: 60,
	max_workers: 16,
};

fn record_biased_schema(rng: &mut Rng) -> RSchema {
	let mut best = None;
	for _ in 0..6 {
		let mut cfg = SchemaGenCfg::default();
		cfg.max_nodes = *rng.pick(&[8, 16, 30]);
		// (serialization only: decimals over a fixed wider than 16 bytes can be written from text)
		cfg.allow_big_fixed_decimal = true;
		let rs = gen_schema(rng, &cfg);
		let nrec = rs
			.nodes
			.iter()
			.filter(|n| matches!(&n.kind, Kind::Record { fields, .. } if fields.len() >= 2))
			.count();
		let nbytes = rs.nodes.iter().filter(|n| matches!(n.kind, Kind::Bytes | Kind::Fixed { .. })).count();
		if nrec >= 1 && (nbytes >= 1 || rng.coin()) {
			return rs;
		}
		best = Some(rs);
	}
	best.unwrap()
}

/// replace one random sub-value by something of the wrong kind (so that presenting it fails there)
fn corrupt(v: &mut Val, rng: &mut Rng, depth: usize) -> bool {
	let descend = depth < 6 && rng.chance(3, 4);
	match v {
		Val::Record(xs) | Val::Array(xs) if descend && !xs.is_empty() => {
			let k = rng.below(xs.len());
			if corrupt(&mut xs[k], rng, depth + 1) {
				return true;
			}
		}
		Val::Map(es) if descend && !es.is_empty() => {
			let k = rng.below(es.len());
			if corrupt(&mut es[k].1, rng, depth + 1) {
				return true;
			}
		}
		Val::Union(_, x) if descend => {
			if corrupt(x, rng, depth + 1) {
				return true;
			}
		}
		_ => {}
	}
	// a sub-value of another kind, shown to the serializer in its natural shape (the crate then
	// detects the mismatch itself, e.g. while it builds a tuple / struct / seq serializer)
	*v = match (&*v, rng.below(4)) {
		(Val::Str(_), _) => Val::Duration(1, 2, 3),
		(_, 0) => Val::Duration(4, 5, 6),
		(_, 1) => Val::Array(vec![Val::Int(1), Val::Int(2)]),
		(_, 2) => Val::Record(vec![Val::Int(1)]),
		_ => Val::Str("does not fit here".into()),
	};
	true
}

fn pres_for(rng: &mut Rng, allow_slow: bool) -> Pres {
	let mut p = Pres::random(rng);
	p.field_order = *rng.pick(&[FieldOrder::Shuffled, FieldOrder::Reversed, FieldOrder::Shuffled, FieldOrder::Schema]);
	p.record_as = *rng.pick(&[RecordAs::Struct, RecordAs::Map, RecordAs::MapSplitKeyValue]);
	// byte sequences element by element: accepted only with the knob on; with it off the same
	// presentation must be refused by a fresh AND by a reused configuration
	p.bytes_as_seq = if allow_slow { rng.chance(2, 3) } else { rng.chance(1, 3) };
	if p.bytes_as_seq {
		p.exact_len_hint = rng.chance(1, 3);
	}
	p.seq_as_tuple = rng.chance(1, 3);
	p.omit_null_fields = *rng.pick(&[0, 4]);
	p
}

pub fn run_case(ctx: &mut Ctx, case_seed: u64) {
	let mut rng = Rng::new(case_seed);
	let rs = record_biased_schema(&mut rng);
	let (schema, _) = make_schema(&rs, SchemaVia::Builder, &mut rng);
	let schema = match schema {
		Ok(s) => s,
		Err(_) => return,
	};
	let allow_slow = rng.coin();
	let mut cfg = SerializerConfig::new(&schema);
	if allow_slow {
		cfg.allow_slow_sequence_to_bytes();
	}
	let nops = rng.below(9);
	let mut history: Vec<String> = Vec::new();
	let mut had_failure = false;
	for _ in 0..nops {
		let mut vg = ValueGen::new(&rs);
		vg.budget = *rng.pick(&[10, 80]);
		let mut v = vg.gen(&mut rng);
		let p = pres_for(&mut rng, allow_slow);
		match rng.below(5) {
			0 | 1 => {
				let r = serde_avro_fast::to_datum_vec(&Present::new(&rs, &v, &p), &mut cfg);
				history.push(format!("ok({})", r.is_ok()));
				ctx.count("history:ok");
			}
			2 | 3 => {
				corrupt(&mut v, &mut rng, 0);
				let r = serde_avro_fast::to_datum_vec(&Present::new(&rs, &v, &p), &mut cfg);
				if r.is_err() {
					had_failure = true;
					ctx.count("history:fail-in-value");
				}
				history.push(format!("fail-in-value(err={})", r.is_err()));
			}
			_ => {
				// sink error after n bytes, n swept
				let full = match encode_canonical(&rs, &v) {
					Ok(b) => b.len(),
					Err(_) => 0,
				};
				let step = (full / 24).max(1);
				let mut n = 0;
				let mut errs = 0;
				while n <= full {
					let pp = pres_for(&mut rng, allow_slow);
					let sink = FailAfter { out: Vec::new(), limit: n };
					let r = if rng.coin() {
						serde_avro_fast::to_datum(&Present::new(&rs, &v, &pp), sink, &mut cfg).map(|_| ())
					} else {
						let mut st = SerializerState::from_writer(sink, &mut cfg);
						serde::Serialize::serialize(&Present::new(&rs, &v, &pp), st.serializer())
					};
					if r.is_err() {
						errs += 1;
						had_failure = true;
					}
					n += step;
				}
				ctx.add("history:sink-error", errs);
				history.push(format!("sink-error-sweep(0..={full} step {step}, {errs} errors)"));
			}
		}
	}
	// ---- probe
	let mut vg = ValueGen::new(&rs);
	vg.budget = *rng.pick(&[10, 80]);
	let v = vg.gen(&mut rng);
	let p_seed = rng.next_u64();
	let mk_pres = |allow: bool| {
		let mut r = Rng::new(p_seed);
		pres_for(&mut r, allow)
	};
	let want = match encode_canonical(&rs, &v) {
		Ok(b) => b,
		Err(_) => return,
	};
	let fresh = {
		let mut c2 = SerializerConfig::new(&schema);
		if allow_slow {
			c2.allow_slow_sequence_to_bytes();
		}
		serde_avro_fast::to_datum_vec(&Present::new(&rs, &v, &mk_pres(allow_slow)), &mut c2).map_err(|e| e.to_string())
	};
	let reused = serde_avro_fast::to_datum_vec(&Present::new(&rs, &v, &mk_pres(allow_slow)), &mut cfg).map_err(|e| e.to_string());
	// pool invariant read where the state lives (hook H3): every pooled buffer is empty
	#[cfg(ten0_serde_avro_fast_verif)]
	{
		let (bufs, supers) = cfg.verif_pool_snapshot();
		ctx.count("pool_snapshots");
		ctx.max("pooled_buffers", bufs.len() as u64);
		ctx.max("pooled_super_buffers", supers.len() as u64);
		let shape = format!("{}b/{}s/{}cap", bufs.len(), supers.len(), bufs.iter().map(|b| b.1).max().unwrap_or(0).next_power_of_two());
		ctx.distinct_bytes(&[b"pool-shape", shape.as_bytes()]);
		if bufs.iter().any(|b| b.0 != 0) || supers.iter().any(|b| b.0 != 0) {
			ctx.violation(
				"pool-holds-a-non-empty-buffer-at-a-quiescent-point",
				case_seed,
				json!({"schema": rs.spell(None).compact(), "history": history, "pool_buffers_len_cap": bufs, "pool_super_buffers_len_cap": supers}),
			);
			return;
		}
	}
	let pdesc = mk_pres(allow_slow).describe();
	let describe = |extra: serde_json::Value| {
		json!({"schema": rs.spell(None).compact(), "history": history, "probe_value": v.to_json(), "probe_presentation": pdesc, "allow_slow_sequence_to_bytes": allow_slow, "extra": extra})
	};
	match (&fresh, &reused) {
		(Ok(a), Ok(b)) if a == b => {
			ctx.count("probe_equal");
			if had_failure {
				ctx.count("probes_after_failure");
			}
			// with exact hints / decimals minimal the bytes must also be the reference encoding; with
			// unknown-length sequences the block layout may differ, so only decodability is demanded
			if a != &want && decode_datum(&rs, a).map(|(x, _)| x).ok().as_ref() != Some(&v) {
				ctx.violation("probe-bytes-not-an-encoding-of-the-value", case_seed, describe(json!({"bytes": hex(a)})));
			}
		}
		(Ok(a), Ok(b)) => {
			ctx.violation(
				"reused-config-changes-bytes",
				case_seed,
				describe(json!({"fresh": hex(a), "reused": hex(b)})),
			);
			return;
		}
		(Ok(_), Err(e)) => {
			ctx.violation(format!("reused-config-fails {}", err_sig(e)), case_seed, describe(json!({"error": e})));
			return;
		}
		(Err(e), Ok(_)) => {
			ctx.violation(format!("fresh-config-fails-but-reused-ok {}", err_sig(e)), case_seed, describe(json!({"error": e})));
			return;
		}
		(Err(_), Err(_)) => {
			ctx.count("probe_rejected_by_both");
		}
	}
	// ---- the same through an owned config and the container writer sharing the config
	if rng.chance(1, 4) {
		use serde_avro_fast::object_container_file_encoding::{Compression, WriterBuilder};
		let sync = [7u8; 16];
		let p = mk_pres(allow_slow);
		let a = {
			let mut c2 = SerializerConfig::new(&schema);
			if allow_slow {
				c2.allow_slow_sequence_to_bytes();
			}
			let mut w = match WriterBuilder::new(&mut c2).compression(Compression::Null).sync_marker(sync).build(Vec::new()) {
				Ok(w) => w,
				Err(_) => return,
			};
			let r = w.serialize(Present::new(&rs, &v, &p)).map_err(|e| e.to_string());
			r.and_then(|_| w.into_inner().map_err(|e| e.to_string()))
		};
		let p2 = mk_pres(allow_slow);
		let b = {
			let mut w = match WriterBuilder::new(&mut cfg).compression(Compression::Null).sync_marker(sync).build(Vec::new()) {
				Ok(w) => w,
				Err(_) => return,
			};
			let r = w.serialize(Present::new(&rs, &v, &p2)).map_err(|e| e.to_string());
			r.and_then(|_| w.into_inner().map_err(|e| e.to_string()))
		};
		if a != b {
			ctx.violation(
				"reused-config-changes-container-output",
				case_seed,
				describe(json!({"fresh": format!("{:?}", a.as_ref().map(|x| hex(x))), "reused": format!("{:?}", b.as_ref().map(|x| hex(x)))})),
			);
			return;
		}
		ctx.count("container_writer_probe_equal");
	}
	let kinds: String = history.iter().map(|h| h.chars().next().unwrap_or('?')).collect();
	ctx.distinct_bytes(&[&shape_hash(&rs).to_le_bytes(), kinds.as_bytes(), &want]);
	ctx.sample(|| describe(json!({"probe_bytes": hex(&want)})));
}
