//! C10 — API-trace interpreter run under Miri / AddressSanitizer / valgrind.
//! usage: c10trace <seed> <n_traces> [ops_per_trace]
//! Every trace uses only safe public API of serde_avro_fast; the sanitizer is the oracle for the
//! memory clauses, result equality (concurrent vs sequential) for the concurrency clause.
#![allow(dead_code)]

#[path = "../../engine/src/rng.rs"]
mod rng;
#[path = "../../engine/src/json.rs"]
mod json;
mod refavro {
	#[path = "../../../engine/src/refavro/schema.rs"]
	pub mod schema;
	#[path = "../../../engine/src/refavro/value.rs"]
	pub mod value;
}
mod gen {
	#[path = "../../../engine/src/gen/schema.rs"]
	pub mod schema;
	#[path = "../../../engine/src/gen/value.rs"]
	pub mod value;
}
mod bridge {
	#[path = "../../../engine/src/bridge/collect.rs"]
	pub mod collect;
	#[path = "../../../engine/src/bridge/present.rs"]
	pub mod present;
}
#[path = "../../engine/src/io.rs"]
mod io;

use bridge::collect::{Collect, EnumVia, Mode, Stats, UnionVia};
use bridge::present::{Pres, Present};
use gen::schema::{gen_schema, SchemaGenCfg};
use gen::value::ValueGen;
use refavro::schema::*;
use refavro::value::Val;
use rng::Rng;
use serde_avro_fast::object_container_file_encoding::{Compression, CompressionLevel, Reader, WriterBuilder};
use serde_avro_fast::ser::SerializerConfig;
use serde_avro_fast::Schema;
use std::cell::RefCell;
use std::collections::BTreeMap;
use std::sync::Arc;

/// where a live schema is kept: moving it around must never invalidate its internal pointers
enum Holder {
	Plain(Schema),
	Boxed(Box<Schema>),
	Shared(Arc<Schema>),
	InVec(Vec<Schema>, usize),
}
impl Holder {
	fn get(&self) -> &Schema {
		match self {
			Holder::Plain(s) => s,
			Holder::Boxed(s) => s,
			Holder::Shared(s) => s,
			Holder::InVec(v, i) => &v[*i],
		}
	}
}

struct Live {
	rs: RSchema,
	h: Holder,
}

struct Counters {
	ops: BTreeMap<&'static str, u64>,
	bigrams: std::collections::BTreeSet<(&'static str, &'static str)>,
	last: &'static str,
	mismatches: Vec<String>,
}
impl Counters {
	fn op(&mut self, name: &'static str) {
		*self.ops.entry(name).or_insert(0) += 1;
		self.bigrams.insert((self.last, name));
		self.last = name;
	}
}

fn small_schema(rng: &mut Rng) -> RSchema {
	let mut cfg = SchemaGenCfg::default();
	cfg.max_nodes = *rng.pick(&[1, 4, 9]);
	cfg.max_depth = 3;
	gen_schema(rng, &cfg)
}

fn gen_value(rs: &RSchema, rng: &mut Rng) -> Val {
	let mut vg = ValueGen::new(rs);
	vg.budget = 12;
	vg.max_depth = 4;
	vg.gen(rng)
}

fn ser(s: &Schema, rs: &RSchema, v: &Val) -> Option<Vec<u8>> {
	let mut cfg = SerializerConfig::new(s);
	let p = Pres::canonical();
	serde_avro_fast::to_datum_vec(&Present::new(rs, v, &p), &mut cfg).ok()
}

fn de(s: &Schema, rs: &RSchema, bytes: &[u8]) -> Option<Val> {
	let stats = RefCell::new(Stats::default());
	let m = Mode {
		union_via: UnionVia::Enum,
		enum_via: EnumVia::Str,
		duration_via: 0,
		owned_hints: false,
		ignore: None,
		unit_variant_unions: None,
		stats: &stats,
	};
	let mut st = serde_avro_fast::de::DeserializerState::from_slice(bytes, s);
	serde::de::DeserializeSeed::deserialize(Collect::root(rs, &m), st.deserializer()).ok()
}

fn freeze_error_graph(rng: &mut Rng) -> (RSchema, &'static str) {
	let p = |k: Kind| Node { kind: k, logical: None };
	let rec = |name: &str, fields: Vec<(&str, usize)>| {
		p(Kind::Record {
			name: name.into(),
			fields: fields.into_iter().map(|(a, b)| (a.to_owned(), b)).collect(),
		})
	};
	match rng.below(7) {
		0 => (RSchema { nodes: vec![] }, "empty"),
		// dangling key at node i, nodes before it already initialised (with owned data)
		1 => (
			RSchema {
				nodes: vec![
					rec("R", vec![("a", 1), ("b", 2)]),
					p(Kind::Enum {
						name: "E".into(),
						symbols: vec!["A".into(), "B".into()],
					}),
					p(Kind::Union(vec![1, 9])),
				],
			},
			"dangling-reachable",
		),
		// dangling key in a node unreachable from the root (fingerprint / json succeed first)
		2 => (
			RSchema {
				nodes: vec![rec("R", vec![("a", 1)]), p(Kind::String), p(Kind::Array(7))],
			},
			"dangling-orphan",
		),
		3 => (
			RSchema {
				nodes: vec![
					p(Kind::Int),
					rec("Orphan", vec![("x", 0), ("y", 5)]),
					p(Kind::Union(vec![0, 1])),
					p(Kind::Map(usize::MAX)),
				],
			},
			"dangling-orphan-late",
		),
		4 => (RSchema { nodes: vec![p(Kind::Array(0))] }, "unnamed-cycle"),
		5 => (
			RSchema {
				nodes: vec![
					Node {
						kind: Kind::Union(vec![1, 2]),
						logical: Some(Logical::Unknown("x".into())),
					},
					p(Kind::Null),
					p(Kind::Int),
				],
			},
			"logical-on-union",
		),
		_ => (
			RSchema {
				nodes: vec![
					rec("R", vec![("a", 1), ("b", 3)]),
					p(Kind::Union(vec![2, 0])),
					p(Kind::Null),
					p(Kind::Fixed {
						name: "F".into(),
						size: 4,
					}),
					p(Kind::Union(vec![0, 44])),
				],
			},
			"dangling-orphan-union",
		),
	}
}

fn container_bytes(s: &Schema, rs: &RSchema, vals: &[Val], codec: usize) -> Option<Vec<u8>> {
	let mut cfg = SerializerConfig::new(s);
	let comp = match codec {
		0 => Compression::Null,
		1 => Compression::Deflate {
			level: CompressionLevel::default(),
		},
		2 => Compression::Snappy,
		#[cfg(feature = "ffi_codecs")]
		3 => Compression::Bzip2 {
			level: CompressionLevel::new(1),
		},
		#[cfg(feature = "ffi_codecs")]
		4 => Compression::Xz {
			level: CompressionLevel::new(1),
		},
		#[cfg(feature = "ffi_codecs")]
		5 => Compression::Zstandard {
			level: CompressionLevel::default(),
		},
		_ => Compression::Null,
	};
	let mut w = WriterBuilder::new(&mut cfg)
		.compression(comp)
		.approx_block_size(40)
		.sync_marker([9; 16])
		.build(Vec::new())
		.ok()?;
	let p = Pres::canonical();
	for v in vals {
		if w.serialize(Present::new(rs, v, &p)).is_err() {
			std::mem::forget(w);
			return None;
		}
	}
	w.into_inner().ok()
}

fn read_some<'a, R>(reader: &mut Reader<R>, rs: &RSchema, n: usize) -> Vec<Val>
where
	R: serde_avro_fast::de::read::take::Take + serde_avro_fast::de::read::ReadSlice<'a> + std::io::BufRead,
	<R as serde_avro_fast::de::read::take::Take>::Take: serde_avro_fast::de::read::ReadSlice<'a> + std::io::BufRead,
{
	let stats = RefCell::new(Stats::default());
	let m = Mode {
		union_via: UnionVia::Enum,
		enum_via: EnumVia::Str,
		duration_via: 0,
		owned_hints: false,
		ignore: None,
		unit_variant_unions: None,
		stats: &stats,
	};
	let mut out = Vec::new();
	for _ in 0..n {
		match reader.deserialize_seed_next(Collect::root(rs, &m)) {
			Ok(Some(v)) => out.push(v),
			_ => break,
		}
	}
	out
}

fn run_trace(seed: u64, nops: usize, c: &mut Counters) {
	let mut rng = Rng::new(seed);
	let mut live: Vec<Live> = Vec::new();
	let n_codecs = if cfg!(feature = "ffi_codecs") { 6 } else { 3 };
	c.last = "start";
	for _ in 0..nops {
		let roll = rng.below(20);
		match roll {
			0 | 1 => {
				// parse text (plain or fancy spelling)
				let rs = small_schema(&mut rng);
				let text = if rng.coin() {
					rs.spell(None).compact()
				} else {
					let j = rs.spell(Some(&mut rng));
					j.styled(&mut rng)
				};
				if let Ok(s) = text.parse::<Schema>() {
					live.push(Live { rs, h: Holder::Plain(s) });
				}
				c.op("parse");
			}
			2 | 3 => {
				// build through the node API (optionally with an edit), freeze
				let rs = small_schema(&mut rng);
				let mut sm = rs.to_schema_mut();
				if rng.coin() {
					let nodes = sm.nodes_mut();
					let k = rng.below(nodes.len());
					let n = nodes[k].clone();
					nodes[k] = n;
					c.op("edit");
				}
				if let Ok(s) = sm.freeze() {
					live.push(Live { rs, h: Holder::Plain(s) });
				}
				c.op("build+freeze");
			}
			4 => {
				// freeze error exits (also after a successful clone of the same SchemaMut)
				let (g, which) = freeze_error_graph(&mut rng);
				let sm = g.to_schema_mut();
				let sm2 = sm.clone();
				let r = sm.freeze();
				if r.is_ok() {
					c.mismatches.push(format!("freeze of an invalid graph ({which}) returned Ok"));
				}
				let _ = serde_json::to_string(&sm2);
				let _ = sm2.canonical_form_rabin_fingerprint();
				drop(r);
				c.op(match which {
					"empty" => "freeze-err:empty",
					"dangling-reachable" => "freeze-err:dangling-reachable",
					"dangling-orphan" => "freeze-err:dangling-orphan",
					"dangling-orphan-late" => "freeze-err:dangling-orphan-late",
					"dangling-orphan-union" => "freeze-err:dangling-orphan-union",
					"unnamed-cycle" => "freeze-err:unnamed-cycle",
					_ => "freeze-err:json",
				});
			}
			5 if !live.is_empty() => {
				// move: Plain -> Box -> Vec (reallocating) -> Arc ...
				let k = rng.below(live.len());
				let Live { rs, h } = live.swap_remove(k);
				let h = match h {
					Holder::Plain(s) => {
						if rng.coin() {
							Holder::Boxed(Box::new(s))
						} else {
							let mut v = Vec::with_capacity(1);
							v.push(s);
							// force reallocation of the vector that holds the schema
							for _ in 0..3 {
								if let Ok(extra) = "\"int\"".parse::<Schema>() {
									v.push(extra);
								}
							}
							Holder::InVec(v, 0)
						}
					}
					Holder::Boxed(b) => Holder::Shared(Arc::new(*b)),
					Holder::InVec(mut v, i) => Holder::Plain(v.swap_remove(i)),
					Holder::Shared(a) => match Arc::try_unwrap(a) {
						Ok(s) => Holder::Plain(s),
						Err(a) => Holder::Shared(a),
					},
				};
				live.push(Live { rs, h });
				c.op("move");
			}
			6 if live.len() >= 2 => {
				let (a, b) = (rng.below(live.len()), rng.below(live.len()));
				live.swap(a, b);
				c.op("swap");
			}
			7 | 8 | 9 if !live.is_empty() => {
				// serialize + owned decode round trip
				let l = rng.pick(&live);
				let v = gen_value(&l.rs, &mut rng);
				if let Some(bytes) = ser(l.h.get(), &l.rs, &v) {
					let back = de(l.h.get(), &l.rs, &bytes);
					if back.as_ref() != Some(&v) {
						c.mismatches.push(format!("round trip differs for schema {}", l.rs.spell(None).compact()));
					}
				}
				c.op("ser+de");
			}
			10 => {
				// borrowed decode; the result outlives the schema (allowed by the signature)
				let s: Schema = r#"{"type":"record","name":"B","fields":[{"name":"s","type":"string"},{"name":"b","type":"bytes"},{"name":"e","type":{"type":"enum","name":"E","symbols":["X","Y"]}}]}"#
					.parse()
					.unwrap();
				#[derive(serde_derive::Deserialize, Debug)]
				struct Bv<'a> {
					s: &'a str,
					#[serde(with = "serde_bytes")]
					b: &'a [u8],
					e: String,
				}
				let data: Vec<u8> = vec![6, b'a', b'b', b'c', 4, 1, 2, 2];
				let r: Result<Bv, _> = serde_avro_fast::from_datum_slice(&data, &s);
				drop(s);
				if let Ok(v) = r {
					if v.s != "abc" || v.b != [1, 2] || v.e != "Y" {
						c.mismatches.push("borrowed decode wrong".into());
					}
				}
				c.op("borrowed-decode-outlives-schema");
			}
			11 | 12 | 13 if !live.is_empty() => {
				// container reader over slice / BufReader / chunked reader; clone reader.schema(); drop orders
				let k = rng.below(live.len());
				let vals: Vec<Val> = (0..rng.below(5)).map(|_| gen_value(&live[k].rs, &mut rng)).collect();
				let codec = rng.below(n_codecs);
				if let Some(file) = container_bytes(live[k].h.get(), &live[k].rs, &vals, codec) {
					let rs = live[k].rs.clone();
					let mut moved_mid_block = false;
					let n = rng.below(vals.len() + 2);
					let kind = rng.below(4);
					let drop_reader_first = rng.coin();
					let (got, kept): (Vec<Val>, Arc<Schema>) = match kind {
						0 => {
							let mut r = Reader::from_slice(&file).unwrap();
							let got = read_some(&mut r, &rs, n);
							let kept = r.schema().clone();
							if drop_reader_first {
								drop(r);
								(got, kept)
							} else {
								let k2 = kept.clone();
								drop(kept);
								let g2 = read_some(&mut r, &rs, 1);
								let _ = g2;
								(got, k2)
							}
						}
						1 => {
							let mut r = Reader::from_reader(std::io::BufReader::with_capacity(1 + rng.below(9), &file[..])).unwrap();
							let got = read_some(&mut r, &rs, n);
							let kept = r.schema().clone();
							drop(r);
							(got, kept)
						}
						2 => {
							let mut r = Reader::from_reader(io::ChunkedBufRead::new(&file, vec![1 + rng.below(5)])).unwrap();
							let kept = r.schema().clone();
							let got = read_some(&mut r, &rs, n);
							drop(r);
							(got, kept)
						}
						_ => {
							// the reader is moved while it is in the middle of a block: out of a heap slot that is then freed
							// and reused, through a Vec that reallocates, and swapped with another reader that is also mid-block;
							// whatever its block state refers to must move with it
							moved_mid_block = true;
							let cap = *rng.pick(&[1usize, 7, 64, 8192]);
							let mut got = Vec::new();
							let moved_out = {
								let mut boxed = Box::new(Reader::from_reader(std::io::BufReader::with_capacity(cap, &file[..])).unwrap());
								got = read_some(&mut *boxed, &rs, 1);
								*boxed
							};
							let filler: Vec<Vec<u8>> = (0..4).map(|i| vec![0xA0 + i as u8; 64 << i]).collect();
							let mut readers = Vec::with_capacity(1);
							readers.push(moved_out);
							let mut other = Reader::from_reader(std::io::BufReader::with_capacity(cap, &file[..])).unwrap();
							let got_other_first = read_some(&mut other, &rs, 1);
							readers.push(other); // reallocates: both readers move
							readers.swap(0, 1);
							let (a, b) = readers.split_at_mut(1);
							std::mem::swap(&mut a[0], &mut b[0]);
							let mut first = readers.remove(0);
							got.extend(read_some(&mut first, &rs, vals.len() + 1));
							let mut second = readers.pop().unwrap();
							let mut got2 = got_other_first;
							got2.extend(read_some(&mut second, &rs, vals.len() + 1));
							if got2 != vals || got != vals {
								c.mismatches.push("container read after moving the reader mid-block differs".into());
							}
							drop(filler);
							let kept = first.schema().clone();
							drop(second);
							drop(first);
							(got, kept)
						}
					};
					if got[..] != vals[..got.len().min(vals.len())] {
						c.mismatches.push("container read differs".into());
					}
					// the schema handle obtained from the reader stays usable after the reader is gone
					let v = gen_value(&rs, &mut rng);
					let _ = ser(&kept, &rs, &v);
					let _ = format!("{:?}", kept);
					if rng.coin() {
						live.push(Live {
							rs,
							h: Holder::Shared(kept),
						});
					}
					if moved_mid_block {
						c.op(match codec {
							0 => "reader-moved-mid-block:null",
							1 => "reader-moved-mid-block:deflate",
							2 => "reader-moved-mid-block:snappy",
							3 => "reader-moved-mid-block:bzip2",
							4 => "reader-moved-mid-block:xz",
							_ => "reader-moved-mid-block:zstandard",
						});
					}
					c.op(match codec {
						0 => "reader:null",
						1 => "reader:deflate",
						2 => "reader:snappy",
						3 => "reader:bzip2",
						4 => "reader:xz",
						_ => "reader:zstandard",
					});
				}
			}
			14 if !live.is_empty() => {
				let l = rng.pick(&live);
				let s = format!("{:?}", l.h.get());
				let _ = s.len() + l.h.get().json().len() + l.h.get().rabin_fingerprint().len();
				c.op("debug+json");
			}
			15 | 16 if !live.is_empty() => {
				// concurrent shared read-only use: results must equal the sequential ones
				let l = rng.pick(&live);
				let vals: Vec<Val> = (0..3).map(|_| gen_value(&l.rs, &mut rng)).collect();
				let seq: Vec<Option<Vec<u8>>> = vals.iter().map(|v| ser(l.h.get(), &l.rs, v)).collect();
				let schema_ref: &Schema = l.h.get();
				let rs = &l.rs;
				let shared_arc: Option<Arc<Schema>> = match &l.h {
					Holder::Shared(a) => Some(a.clone()),
					_ => None,
				};
				let results: Vec<Vec<Option<Vec<u8>>>> = std::thread::scope(|sc| {
					let hs: Vec<_> = (0..2)
						.map(|t| {
							let vals = &vals;
							let seq = &seq;
							let arc = shared_arc.clone();
							sc.spawn(move || {
								let s: &Schema = match &arc {
									Some(a) if t == 1 => a,
									_ => schema_ref,
								};
								let out: Vec<Option<Vec<u8>>> = vals.iter().map(|v| ser(s, rs, v)).collect();
								for (b, v) in seq.iter().zip(vals) {
									if let Some(b) = b {
										let back = de(s, rs, b);
										assert!(back.as_ref() == Some(v), "concurrent decode differs");
									}
								}
								let _ = format!("{:?}", s);
								out
							})
						})
						.collect();
					hs.into_iter().map(|h| h.join().unwrap()).collect()
				});
				for r in results {
					if r != seq {
						c.mismatches.push("concurrent serialization differs from sequential".into());
					}
				}
				c.op("threads");
			}
			17 if !live.is_empty() => {
				let k = rng.below(live.len());
				live.swap_remove(k);
				c.op("drop-one");
			}
			18 => {
				// a freshly frozen schema whose FIRST use is concurrent (nothing sequential before the
				// threads start): lazily initialised state, if any, is initialised under contention
				let mut rs = small_schema(&mut rng);
				for _ in 0..6 {
					if rs.nodes.iter().any(|n| matches!(n.kind, Kind::Union(_))) {
						break;
					}
					rs = small_schema(&mut rng);
				}
				let built = if rng.coin() {
					rs.spell(None).compact().parse::<Schema>().ok()
				} else {
					rs.to_schema_mut().freeze().ok()
				};
				if let Some(s) = built {
					let s = Arc::new(s);
					let vals: Vec<Val> = (0..3).map(|_| gen_value(&rs, &mut rng)).collect();
					let rsr = &rs;
					let results: Vec<Vec<Option<Vec<u8>>>> = std::thread::scope(|sc| {
						let hs: Vec<_> = (0..3)
							.map(|_| {
								let s = s.clone();
								let vals = &vals;
								sc.spawn(move || vals.iter().map(|v| ser(&s, rsr, v)).collect::<Vec<_>>())
							})
							.collect();
						hs.into_iter().map(|h| h.join().expect("thread panicked")).collect()
					});
					let seq: Vec<Option<Vec<u8>>> = vals.iter().map(|v| ser(&s, &rs, v)).collect();
					for r in results {
						if r != seq {
							c.mismatches.push("concurrent first use differs from sequential".into());
						}
					}
					live.push(Live {
						rs,
						h: Holder::Shared(s),
					});
				}
				c.op("threads-first-use");
			}
			19 if rng.chance(1, 3) => {
				// values borrowed from a container read through from_slice: with the null codec they may point into the file,
				// with a compressed codec the reader must refuse (or own the data); whatever it hands out stays valid while
				// it moves on to the next blocks and after it is gone
				let schema: Schema = "\"string\"".parse().unwrap();
				let codec = *rng.pick(&[0usize, 1, 2, 2]);
				let comp = match codec {
					1 => Compression::Deflate { level: CompressionLevel::new(1) },
					2 => Compression::Snappy,
					_ => Compression::Null,
				};
				let expected: Vec<String> = (0..5).map(|i| format!("value-{i}-{}", "x".repeat(8 + rng.below(24)))).collect();
				let mut cfg = SerializerConfig::new(&schema);
				let file = (|| {
					let mut w = WriterBuilder::new(&mut cfg).compression(comp).approx_block_size(20).sync_marker([3; 16]).build(Vec::new()).ok()?;
					for v in &expected {
						w.serialize(v).ok()?;
					}
					w.into_inner().ok()
				})();
				if let Some(file) = file {
					let mut kept: Vec<&str> = Vec::new();
					{
						let mut r = Reader::from_slice(&file).unwrap();
						loop {
							match r.deserialize_next_borrowed::<&str>() {
								Ok(Some(s)) => kept.push(s),
								_ => break,
							}
							if kept.len() > 8 {
								break;
							}
						}
					}
					let scratch: Vec<Vec<u8>> = (0..4).map(|i| vec![0xC0 + i as u8; 48 << i]).collect();
					for (i, s) in kept.iter().enumerate() {
						if expected.get(i).map(|e| e.as_str()) != Some(*s) {
							c.mismatches.push(format!("value borrowed from a container block changed afterwards (codec {codec})"));
							break;
						}
					}
					drop(scratch);
					c.op(match (codec, kept.is_empty()) {
						(0, _) => "borrowed-from-container:null",
						(1, true) => "borrowed-from-container:deflate-refused",
						(1, false) => "borrowed-from-container:deflate-served",
						(_, true) => "borrowed-from-container:snappy-refused",
						(_, false) => "borrowed-from-container:snappy-served",
					});
				}
			}
			19 if rng.chance(1, 2) => {
				// the caller's source panics at some call (what a user's `impl BufRead` may do); the panic is caught, the
				// reader is then used again and dropped: everything it owns must be released exactly once
				struct PanickingSource {
					data: Vec<u8>,
					pos: usize,
					chunk: usize,
					calls: usize,
					panic_at: usize,
					_owned: Box<[u64; 4]>,
				}
				impl PanickingSource {
					fn tick(&mut self) {
						let n = self.calls;
						self.calls += 1;
						if n == self.panic_at {
							panic!("injected source panic");
						}
					}
				}
				impl std::io::Read for PanickingSource {
					fn read(&mut self, buf: &mut [u8]) -> std::io::Result<usize> {
						self.tick();
						let n = buf.len().min(self.chunk).min(self.data.len() - self.pos);
						buf[..n].copy_from_slice(&self.data[self.pos..self.pos + n]);
						self.pos += n;
						Ok(n)
					}
				}
				impl std::io::BufRead for PanickingSource {
					fn fill_buf(&mut self) -> std::io::Result<&[u8]> {
						self.tick();
						let end = (self.pos + self.chunk).min(self.data.len());
						Ok(&self.data[self.pos..end])
					}
					fn consume(&mut self, amt: usize) {
						self.pos += amt;
					}
				}
				let schema: Schema = r#"{"type":"record","name":"P","fields":[{"name":"a","type":"long"},{"name":"b","type":"string"}]}"#.parse().unwrap();
				#[derive(serde_derive::Serialize, serde_derive::Deserialize)]
				struct P {
					a: i64,
					b: String,
				}
				let codec = rng.below(n_codecs);
				let comp = match codec {
					1 => Compression::Deflate { level: CompressionLevel::new(1) },
					2 => Compression::Snappy,
					#[cfg(feature = "ffi_codecs")]
					3 => Compression::Bzip2 { level: CompressionLevel::new(1) },
					#[cfg(feature = "ffi_codecs")]
					4 => Compression::Xz { level: CompressionLevel::new(1) },
					#[cfg(feature = "ffi_codecs")]
					5 => Compression::Zstandard { level: CompressionLevel::new(1) },
					_ => Compression::Null,
				};
				let mut cfg = SerializerConfig::new(&schema);
				let file = (|| {
					let mut w = WriterBuilder::new(&mut cfg).compression(comp).approx_block_size(24).sync_marker([5; 16]).build(Vec::new()).ok()?;
					for a in 0..6i64 {
						w.serialize(P { a, b: format!("value {a}") }).ok()?;
					}
					w.into_inner().ok()
				})();
				if let Some(file) = file {
					let chunk = 1 + rng.below(12);
					// calls needed for a clean read, then a fault at one of them
					let total_calls = {
						let src = PanickingSource { data: file.clone(), pos: 0, chunk, calls: 0, panic_at: usize::MAX, _owned: Box::new([1; 4]) };
						match Reader::from_reader(src) {
							Ok(mut r) => {
								while let Ok(Some(_)) = r.deserialize_next::<P>() {}
								200usize
							}
							Err(_) => 0,
						}
					};
					let _ = total_calls;
					let panic_at = rng.below(if cfg!(miri) { 60 } else { 160 });
					let src = PanickingSource { data: file.clone(), pos: 0, chunk, calls: 0, panic_at, _owned: Box::new([2; 4]) };
					let prev_hook = std::panic::take_hook();
					std::panic::set_hook(Box::new(|_| {}));
					let mut slot: Option<Reader<serde_avro_fast::de::read::ReaderRead<PanickingSource>>> = None;
					let built = std::panic::catch_unwind(std::panic::AssertUnwindSafe(|| {
						slot = Reader::from_reader(src).ok();
					}));
					let mut panicked = built.is_err();
					if let Some(r) = slot.as_mut() {
						for _ in 0..3 {
							let res = std::panic::catch_unwind(std::panic::AssertUnwindSafe(|| {
								let mut n = 0;
								while let Ok(Some(_)) = r.deserialize_next::<P>() {
									n += 1;
									if n > 10 {
										break;
									}
								}
							}));
							panicked |= res.is_err();
						}
					}
					// dropping the reader releases the source and the block state once
					let dropped = std::panic::catch_unwind(std::panic::AssertUnwindSafe(|| drop(slot)));
					panicked |= dropped.is_err();
					std::panic::set_hook(prev_hook);
					c.op(if panicked { "reader-source-panicked" } else { "reader-source-panic-not-reached" });
				}
			}
			19 if !cfg!(miri) || rng.chance(1, 5) => {
				// a block bigger than the reader's internal 8 KiB buffer, so that the block's decompressor is still in
				// use when the reader is moved: read one value, move the reader out of a heap slot that is then freed
				// and refilled, read on; swap two such readers and read on
				let schema: Schema = "\"bytes\"".parse().unwrap();
				let n_vals = 3 + rng.below(2);
				let payloads: Vec<Vec<u8>> = (0..n_vals)
					.map(|i| {
						let len = 3000 + rng.below(if cfg!(miri) { 200 } else { 3000 });
						(0..len).map(|k| (k as u8).wrapping_mul(31).wrapping_add(i as u8) ^ (rng.next_u32() as u8 & 0x0F)).collect()
					})
					.collect();
				// (interpreting a compressor over 10 KB costs Miri minutes: there the block is stored, the moves are what matters)
				let codec = if cfg!(miri) { 0 } else { rng.below(n_codecs) };
				let comp = match codec {
					1 => Compression::Deflate { level: CompressionLevel::new(1) },
					2 => Compression::Snappy,
					#[cfg(feature = "ffi_codecs")]
					3 => Compression::Bzip2 { level: CompressionLevel::new(1) },
					#[cfg(feature = "ffi_codecs")]
					4 => Compression::Xz { level: CompressionLevel::new(1) },
					#[cfg(feature = "ffi_codecs")]
					5 => Compression::Zstandard { level: CompressionLevel::new(1) },
					_ => Compression::Null,
				};
				let mut cfg = SerializerConfig::new(&schema);
				let file = (|| {
					let mut w = WriterBuilder::new(&mut cfg).compression(comp).sync_marker([7; 16]).build(Vec::new()).ok()?;
					for p in &payloads {
						w.serialize(serde_bytes::Bytes::new(p)).ok()?;
					}
					w.into_inner().ok()
				})();
				if let Some(file) = file {
					let next = |r: &mut Reader<serde_avro_fast::de::read::ReaderRead<std::io::BufReader<&[u8]>>>| -> Option<Vec<u8>> {
						r.deserialize_next::<serde_bytes::ByteBuf>().ok().flatten().map(|b| b.into_vec())
					};
					let cap = *rng.pick(&[64usize, 8192, 100_000]);
					let mut got: Vec<Option<Vec<u8>>> = Vec::new();
					// (the heap slot is released at the end of this block, once its content has been moved out)
					let mut a = {
						let mut boxed = Box::new(Reader::from_reader(std::io::BufReader::with_capacity(cap, &file[..])).unwrap());
						got.push(next(&mut boxed));
						*boxed
					};
					let filler: Vec<Vec<u8>> = (0..6).map(|i| vec![0xB0 + i as u8; 32 << i]).collect();
					got.push(next(&mut a));
					let mut b = Reader::from_reader(std::io::BufReader::with_capacity(cap, &file[..])).unwrap();
					let mut got_b: Vec<Option<Vec<u8>>> = vec![next(&mut b)];
					std::mem::swap(&mut a, &mut b);
					// a is now the reader that has delivered one value, b the one that has delivered two
					got_b.push(next(&mut a));
					got.push(next(&mut b));
					let mut v = vec![b, a];
					v.reserve(16);
					let (mut a2, mut b2) = (v.pop().unwrap(), v.pop().unwrap());
					while let Some(x) = next(&mut a2) {
						got_b.push(Some(x));
						if got_b.len() > 8 {
							break;
						}
					}
					while let Some(x) = next(&mut b2) {
						got.push(Some(x));
						if got.len() > 8 {
							break;
						}
					}
					let want: Vec<Option<Vec<u8>>> = payloads.iter().cloned().map(Some).collect();
					if got != want || got_b != want {
						c.mismatches.push(format!("reader moved inside a big block reads differently (codec {codec})"));
					}
					drop(filler);
					c.op(match codec {
						1 => "reader-moved-in-big-block:deflate",
						2 => "reader-moved-in-big-block:snappy",
						3 => "reader-moved-in-big-block:bzip2",
						4 => "reader-moved-in-big-block:xz",
						5 => "reader-moved-in-big-block:zstandard",
						_ => "reader-moved-in-big-block:null",
					});
				}
			}
			_ => {
				// single-object round trip when something is live
				if let Some(l) = live.first() {
					let v = gen_value(&l.rs, &mut rng);
					let mut cfg = SerializerConfig::new(l.h.get());
					let p = Pres::canonical();
					if let Ok(b) = serde_avro_fast::to_single_object_vec(&Present::new(&l.rs, &v, &p), &mut cfg) {
						let _ = serde_avro_fast::from_single_object_slice::<serde::de::IgnoredAny>(&b, l.h.get());
					}
					c.op("single-object");
				} else {
					c.op("noop");
				}
			}
		}
	}
	// drop everything in a random order
	while !live.is_empty() {
		let k = rng.below(live.len());
		live.swap_remove(k);
	}
	c.op("drop-all");
}

fn main() {
	let args: Vec<String> = std::env::args().collect();
	if args.get(1).map(|s| s.as_str()) == Some("--trace") {
		// replay of one trace
		let tseed: u64 = args.get(2).and_then(|s| s.parse().ok()).unwrap_or(1);
		let nops: usize = args.get(3).and_then(|s| s.parse().ok()).unwrap_or(14);
		let mut c = Counters {
			ops: BTreeMap::new(),
			bigrams: Default::default(),
			last: "start",
			mismatches: vec![],
		};
		println!("TRACE {tseed}");
		run_trace(tseed, nops, &mut c);
		println!("ops: {:?}\nmismatches: {:?}", c.ops, c.mismatches);
		std::process::exit(if c.mismatches.is_empty() { 0 } else { 3 });
	}
	let seed: u64 = args.get(1).and_then(|s| s.parse().ok()).unwrap_or(1);
	let n: usize = args.get(2).and_then(|s| s.parse().ok()).unwrap_or(10);
	let nops: usize = args.get(3).and_then(|s| s.parse().ok()).unwrap_or(12);
	let mut c = Counters {
		ops: BTreeMap::new(),
		bigrams: Default::default(),
		last: "start",
		mismatches: vec![],
	};
	for t in 0..n {
		let tseed = rng::mix(&[seed, t as u64]);
		// the seed of the trace about to run is printed first: a sanitizer abort names its trace
		println!("TRACE {tseed}");
		run_trace(tseed, nops, &mut c);
	}
	let ops: Vec<String> = c.ops.iter().map(|(k, v)| format!("\"{k}\":{v}")).collect();
	println!(
		"SUMMARY {{\"traces\":{n},\"ops\":{{{}}},\"distinct_bigrams\":{},\"mismatches\":{}}}",
		ops.join(","),
		c.bigrams.len(),
		serde_json::to_string(&c.mismatches).unwrap()
	);
	if !c.mismatches.is_empty() {
		std::process::exit(3);
	}
}
