#!/bin/bash
# runs every seeded change against the quick check of its property (plus closely related ones)
declare -A REL=( [C01]="C01" [C02]="C02 C13" [C03]="C03 C11" [C04]="C04" [C05]="C05" [C06]="C06" [C07]="C07" [C08]="C08 C18" [C09]="C09" [C09x]="C09" [C10]="C10" [C11]="C11" [C12]="C12" [C13]="C13" [C14]="C14" [C15]="C15" [C16]="C16" [C17]="C17" [C18]="C18 C08" [C19]="C19" [C20]="C20" )
OUT=/verif/seeded/RESULTS.txt; : > $OUT
for id in ${1:-C01 C02 C03 C04 C05 C06 C07 C08 C09 C09x C10 C11 C12 C13 C14 C15 C16 C17 C18 C19 C20}; do
  /verif/tools/try_seeded.sh $id ${REL[$id]} >> $OUT 2>&1
done
echo DONE >> $OUT
