//! C06 — container files follow the Avro file layout and interoperate with other tools.

use crate::bridge::present::Pres;
use crate::gen::schema::shape_hash;
use crate::json::{json_eq, parse as jparse};
use crate::props::c05::{payload_case, pick_write_cfg};
use crate::refavro::container::{self, Codec, WriteOpts};
use crate::refavro::schema::*;
use crate::refavro::value::*;
use crate::rng::Rng;
use crate::run::{Ctx, PropSpec};
use crate::sut::*;
use crate::sutc::*;
use serde_json::json;

pub const SPEC: PropSpec = PropSpec {
	id: "C06",
	level: "exploration",
	rule: "direction A (crate writes; half of the files through a sink that accepts only part of each write): files from the C05 workload plus random user metadata maps (0..8 keys, binary values) are un-framed by the reference parser: magic, metadata map with avro.schema JSON-equal to Schema::json() and avro.codec = specification name, every user key with exact bytes, 16-byte sync, blocks of (count, size, codec-framed data, same sync); decoded values == written; for deflate/bzip2/xz a sample of files is additionally un-framed by tools/ocf_ref.py (python zlib raw / bz2 / lzma, stream must be terminated with nothing after it; block counts, raw lengths and CRC-32 compared); apache-avro reads a fixed-shape sample. direction B (crate reads): the reference writer produces any block partitioning incl. zero-count blocks, shuffled metadata order, extra keys, metadata map split in several blocks / negative-count blocks, avro.codec absent or \"null\", all six codecs; apache-avro-written files for its codecs; the crate's Reader (slice / BufReader / chunked) must yield exactly the values. distinct by hash(file bytes)",
	assumptions: &["codec libraries' own streaming front ends and python3's zlib/bz2/lzma are the trusted base for payload (de)compression"],
	cases: (50_000_000, 4_000_000_000),
	secs: (45, 900),
	required: &["crate_written_layout_ok", "files_written_to_short_writing_sink", "reference_written_read_ok", "user_metadata_checked", "codec_key_absent_read_ok", "python_crosschecks_ok", "apache_reads_crate_ok", "crate_reads_apache_ok"],
	run_case,
	once: None,
	panics_are_violations: true,
	cpu_kill_secs: 120,
	max_workers: 16,
};

fn user_meta(rng: &mut Rng) -> Vec<(String, Vec<u8>)> {
	let n = rng.below(9);
	(0..n)
		.map(|i| {
			let k = match rng.below(4) {
				0 => format!("user.key{i}"),
				1 => format!("é☃{i}"),
				2 => format!("avro.custom.{i}"),
				_ => format!("k{i}"),
			};
			let len = *rng.pick(&[0usize, 1, 5, 64, 300]);
			(k, rng.bytes(len))
		})
		.collect()
}

pub fn run_case(ctx: &mut Ctx, case_seed: u64) {
	let mut rng = Rng::new(case_seed);
	match rng.below(10) {
		0..=3 => crate_writes(ctx, case_seed, &mut rng),
		4..=7 => crate_reads(ctx, case_seed, &mut rng),
		_ => apache_interop(ctx, case_seed, &mut rng),
	}
}

fn crate_writes(ctx: &mut Ctx, case_seed: u64, rng: &mut Rng) {
	let (rs, vals, shape) = payload_case(rng);
	let (schema, _) = make_schema(&rs, pick_via(rng), rng);
	let schema = match schema {
		Ok(s) => s,
		Err(_) => return,
	};
	let mut wc = pick_write_cfg(rng);
	wc.sink_schedule = crate::props::c05::pick_sink_schedule(rng);
	if wc.sink_schedule.is_some() {
		ctx.count("files_written_to_short_writing_sink");
	}
	wc.user_meta = user_meta(rng);
	wc.sync = rng.bytes(16).try_into().unwrap();
	let ops = op_pattern(rng, vals.len());
	let describe = |extra: serde_json::Value| {
		json!({"schema": rs.spell(None).compact(), "payload_shape": shape, "n_values": vals.len(), "codec": wc.codec.name(), "level": wc.level, "approx_block_size": wc.approx_block_size, "sink_schedule": format!("{:?}", wc.sink_schedule),
			"user_metadata_keys": wc.user_meta.iter().map(|(k, v)| format!("{k} ({} bytes)", v.len())).collect::<Vec<_>>(), "ops": format!("{ops:?}").chars().take(400).collect::<String>(), "extra": extra})
	};
	let file = match write_file(&schema, &rs, &vals, &ops, &wc, &Pres::canonical()) {
		Ok(f) => f,
		Err(e) => {
			ctx.violation(format!("write-failed codec={} {}", wc.codec.name(), err_sig(&e)), case_seed, describe(json!({"error": e})));
			return;
		}
	};
	let ocf = match container::parse(&file) {
		Ok(o) => o,
		Err((m, _)) => {
			ctx.violation(
				format!("layout: not-parseable-by-reference codec={} {}", wc.codec.name(), err_sig(&m)),
				case_seed,
				describe(json!({"reference_parser": m, "file_head": hex(&file[..file.len().min(200)])})),
			);
			return;
		}
	};
	// metadata
	let get = |k: &str| ocf.meta.iter().filter(|(kk, _)| kk == k).map(|(_, v)| v.clone()).collect::<Vec<_>>();
	let schema_entries = get("avro.schema");
	let ok_schema = schema_entries.len() == 1
		&& match (jparse(&String::from_utf8_lossy(&schema_entries[0])), jparse(schema.json())) {
			(Ok(a), Ok(b)) => json_eq(&a, &b),
			_ => false,
		};
	if !ok_schema {
		ctx.violation("layout: avro.schema-metadata-is-not-the-schema-json", case_seed, describe(json!({"avro.schema": schema_entries.iter().map(|v| String::from_utf8_lossy(v).into_owned()).collect::<Vec<_>>(), "json()": schema.json()})));
		return;
	}
	let codec_entries = get("avro.codec");
	if codec_entries.len() != 1 || codec_entries[0] != wc.codec.name().as_bytes() {
		ctx.violation(
			format!("layout: avro.codec-metadata-wrong codec={}", wc.codec.name()),
			case_seed,
			describe(json!({"avro.codec": codec_entries.iter().map(|v| String::from_utf8_lossy(v).into_owned()).collect::<Vec<_>>()})),
		);
		return;
	}
	for (k, v) in &wc.user_meta {
		let got = get(k);
		// duplicate user keys collapse to the last one in a map: generator keys are unique
		if got.len() != 1 || &got[0] != v {
			ctx.violation("layout: user-metadata-missing-or-altered", case_seed, describe(json!({"key": k, "expected": hex(v), "got": got.iter().map(|g| hex(g)).collect::<Vec<_>>()})));
			return;
		}
		ctx.count("user_metadata_checked");
	}
	if ocf.meta.len() != 2 + wc.user_meta.len() {
		ctx.violation("layout: unexpected-extra-metadata", case_seed, describe(json!({"keys": ocf.meta.iter().map(|(k, _)| k.clone()).collect::<Vec<_>>()})));
		return;
	}
	if ocf.sync != wc.sync {
		ctx.violation("layout: sync-marker-is-not-the-configured-one", case_seed, describe(json!({"got": hex(&ocf.sync)})));
		return;
	}
	match container::decode_values(&ocf, &rs) {
		Ok(got) if got == vals => {}
		other => {
			ctx.violation(
				format!("layout: values-differ-for-reference-reader codec={}", wc.codec.name()),
				case_seed,
				describe(json!({"reference": format!("{:?}", other.map(|v| v.len())).chars().take(300).collect::<String>()})),
			);
			return;
		}
	}
	if ocf.blocks.iter().any(|b| b.count == 0) {
		ctx.count("crate_wrote_zero_count_block");
	}
	ctx.count("crate_written_layout_ok");
	ctx.count(&format!("codec:{}", wc.codec.name()));
	// independent python un-framing for a sample
	if matches!(wc.codec, Codec::Deflate | Codec::Bzip2 | Codec::Xz | Codec::Null) && rng.chance(1, 12) {
		let path = format!("/verif/target/run/C06/py-{}-{}.avro", ctx.shard, case_seed);
		if std::fs::write(&path, &file).is_ok() {
			let out = std::process::Command::new("python3").arg("/verif/tools/ocf_ref.py").arg(&path).output();
			let _ = std::fs::remove_file(&path);
			match out {
				Ok(o) => {
					let v: serde_json::Value = serde_json::from_slice(&o.stdout).unwrap_or(json!({"ok": false, "error": "no json"}));
					let blocks_ok = v["blocks"].as_array().map_or(false, |bs| {
						bs.len() == ocf.blocks.len()
							&& bs.iter().zip(&ocf.blocks).all(|(p, r)| {
								p["count"].as_i64() == Some(r.count)
									&& p["raw_len"].as_u64() == Some(r.raw.len() as u64)
									&& p["crc32"].as_u64() == Some(crc32_ieee(&r.raw) as u64)
							})
					});
					if v["ok"] != true || !blocks_ok || v["codec"] != wc.codec.name() {
						ctx.violation(
							format!("layout: python-unframing-disagrees codec={}", wc.codec.name()),
							case_seed,
							describe(json!({"python": v, "reference_blocks": ocf.blocks.iter().map(|b| json!({"count": b.count, "raw_len": b.raw.len()})).collect::<Vec<_>>()})),
						);
						return;
					}
					ctx.count("python_crosschecks_ok");
				}
				Err(_) => ctx.inconclusive += 1,
			}
		}
	}
	ctx.distinct_bytes(&[&shape_hash(&rs).to_le_bytes(), &crate::rng::fnv(&file).to_le_bytes()]);
	ctx.sample(|| describe(json!({"file_len": file.len(), "blocks": ocf.blocks.len()})));
}

fn crate_reads(ctx: &mut Ctx, case_seed: u64, rng: &mut Rng) {
	let (rs, vals, shape) = payload_case(rng);
	if vals.iter().map(|v| v.weight()).sum::<usize>() > 400_000 {
		return;
	}
	let schema_json = if rng.coin() {
		rs.spell(None).compact()
	} else {
		let j = rs.spell(Some(rng));
		j.styled(rng)
	};
	let codec = *rng.pick(&Codec::ALL);
	let write_codec_key = !(codec == Codec::Null && rng.coin());
	let mut enc = Vec::new();
	for v in &vals {
		match encode_random(&rs, v, rng) {
			Ok(b) => enc.push(b),
			Err(_) => return,
		}
	}
	let mut um = user_meta(rng);
	um.retain(|(k, _)| !k.starts_with("avro."));
	let sync: [u8; 16] = rng.bytes(16).try_into().unwrap();
	let mut wrng = rng.fork();
	let file = container::write(
		&schema_json,
		&enc,
		&mut WriteOpts {
			codec,
			write_codec_key,
			user_meta: um.clone(),
			sync,
			rng: &mut wrng,
			empty_blocks: true,
		},
	);
	let describe = |extra: serde_json::Value| {
		json!({"schema_json": schema_json, "payload_shape": shape, "n_values": vals.len(), "codec": codec.name(), "avro.codec_key_written": write_codec_key, "user_metadata_keys": um.iter().map(|(k, _)| k.clone()).collect::<Vec<_>>(),
			"file_len": file.len(), "file_head": hex(&file[..file.len().min(240)]), "extra": extra})
	};
	// the reference parser must accept its own file (guards the harness)
	match container::parse(&file).map_err(|e| e.0).and_then(|o| container::decode_values(&o, &rs)) {
		Ok(v) if v == vals => {}
		other => {
			ctx.violation("harness: reference-writer-output-not-read-by-reference-parser", case_seed, describe(json!({"got": format!("{:?}", other.map(|v| v.len()))})));
			return;
		}
	}
	for _ in 0..2 {
		let kind = pick_reader_kind(rng, file.len());
		let mo = ModeOwned::random(rng);
		match read_file(&file, &rs, &kind, &mo, vals.len() + 4) {
			Err(e) => {
				ctx.violation(
					format!("conforming-file-rejected-at-open codec={} codec_key={} {}", codec.name(), write_codec_key, err_sig(&e)),
					case_seed,
					describe(json!({"reader": format!("{kind:?}"), "error": e})),
				);
				return;
			}
			Ok((items, _)) => {
				let mut want: Vec<Item> = vals.iter().cloned().map(Item::Val).collect();
				want.push(Item::End);
				want.push(Item::End);
				if items != want {
					let first_bad = items.iter().zip(&want).position(|(a, b)| a != b).unwrap_or(items.len().min(want.len()));
					let what = match items.get(first_bad) {
						Some(Item::Err(e)) => format!("error {}", err_sig(e)),
						Some(Item::End) => "premature-end".into(),
						Some(Item::Val(_)) => "wrong-or-extra-value".into(),
						None => "missing-items".into(),
					};
					ctx.violation(
						format!("conforming-file-misread codec={} {what}", codec.name()),
						case_seed,
						describe(json!({"reader": format!("{kind:?}"), "first_difference_at": first_bad, "got": format!("{:?}", items.get(first_bad)).chars().take(300).collect::<String>()})),
					);
					return;
				}
			}
		}
	}
	if !write_codec_key {
		ctx.count("codec_key_absent_read_ok");
	}
	ctx.count("reference_written_read_ok");
	ctx.count(&format!("read_codec:{}", codec.name()));
	ctx.distinct_bytes(&[&crate::rng::fnv(&file).to_le_bytes()]);
}

#[cfg(feature = "apache")]
fn apache_interop(ctx: &mut Ctx, case_seed: u64, rng: &mut Rng) {
	use apache_avro::types::Value as AV;
	let schema_text = r#"{"type":"record","name":"ns.Rec","fields":[{"name":"a","type":"long"},{"name":"b","type":"string"},{"name":"c","type":"bytes"},{"name":"d","type":["null","double"]},{"name":"e","type":{"type":"array","items":"int"}}]}"#;
	let rs = match crate::json::parse(schema_text).ok().and_then(|j| resolve(&j).ok()) {
		Some(r) => r,
		None => return,
	};
	let n = rng.below(40);
	let mut vals = Vec::new();
	let mut avs = Vec::new();
	for i in 0..n {
		let a = crate::gen::value::ValueGen::interesting_i64(rng);
		let b = format!("s{i}é");
		let c = {
			let cap = if rng.chance(1, 10) { 50_000 } else { 40 };
			let l = rng.below(cap);
			rng.bytes(l)
		};
		let d = if rng.coin() { Some(f64::from_bits(crate::gen::value::ValueGen::interesting_f64(rng))) } else { None };
		let d = d.filter(|x| !x.is_nan());
		let e: Vec<i32> = (0..rng.below(4)).map(|_| crate::gen::value::ValueGen::interesting_i32(rng)).collect();
		vals.push(Val::Record(vec![
			Val::Long(a),
			Val::Str(b.clone()),
			Val::Bytes(c.clone()),
			match d {
				Some(x) => Val::Union(1, Box::new(Val::Double(x.to_bits()))),
				None => Val::Union(0, Box::new(Val::Null)),
			},
			Val::Array(e.iter().map(|x| Val::Int(*x)).collect()),
		]));
		avs.push(AV::Record(vec![
			("a".into(), AV::Long(a)),
			("b".into(), AV::String(b)),
			("c".into(), AV::Bytes(c)),
			(
				"d".into(),
				match d {
					Some(x) => AV::Union(1, Box::new(AV::Double(x))),
					None => AV::Union(0, Box::new(AV::Null)),
				},
			),
			("e".into(), AV::Array(e.into_iter().map(AV::Int).collect())),
		]));
	}
	let codec = *rng.pick(&Codec::ALL);
	let acodec = match codec {
		Codec::Null => apache_avro::Codec::Null,
		Codec::Deflate => apache_avro::Codec::Deflate,
		Codec::Bzip2 => apache_avro::Codec::Bzip2,
		Codec::Snappy => apache_avro::Codec::Snappy,
		Codec::Xz => apache_avro::Codec::Xz,
		Codec::Zstandard => apache_avro::Codec::Zstandard,
	};
	let aschema = match apache_avro::Schema::parse_str(schema_text) {
		Ok(s) => s,
		Err(_) => return,
	};
	// apache writes -> crate reads
	{
		let mut w = apache_avro::Writer::with_codec(&aschema, Vec::new(), acodec);
		for v in &avs {
			if w.append(v.clone()).is_err() {
				return;
			}
			if rng.chance(1, 5) {
				let _ = w.flush();
			}
		}
		let file = match w.into_inner() {
			Ok(f) => f,
			Err(_) => return,
		};
		let kind = pick_reader_kind(rng, file.len());
		match read_file(&file, &rs, &kind, &ModeOwned::random(rng), vals.len() + 4) {
			Ok((items, _)) => {
				let mut want: Vec<Item> = vals.iter().cloned().map(Item::Val).collect();
				want.push(Item::End);
				want.push(Item::End);
				if items != want {
					// arbitrated by the reference parser
					let ref_ok = container::parse(&file).map_err(|e| e.0).and_then(|o| container::decode_values(&o, &rs)).map_or(false, |v| v == vals);
					if ref_ok {
						ctx.violation(
							format!("apache-written-file-misread codec={}", codec.name()),
							case_seed,
							json!({"n_values": vals.len(), "reader": format!("{kind:?}"), "first_items": format!("{:?}", items.iter().take(2).collect::<Vec<_>>()).chars().take(400).collect::<String>()}),
						);
						return;
					}
					ctx.count("apache_file_also_rejected_by_reference");
				} else {
					ctx.count("crate_reads_apache_ok");
				}
			}
			Err(e) => {
				let ref_ok = container::parse(&file).is_ok();
				if ref_ok {
					ctx.violation(format!("apache-written-file-rejected codec={} {}", codec.name(), err_sig(&e)), case_seed, json!({"error": e, "file_head": hex(&file[..file.len().min(200)])}));
					return;
				}
			}
		}
	}
	// crate writes -> apache reads
	{
		let schema: serde_avro_fast::Schema = match schema_text.parse() {
			Ok(s) => s,
			Err(_) => return,
		};
		let mut wc = pick_write_cfg(rng);
		wc.codec = codec;
		let ops = op_pattern(rng, vals.len());
		let file = match write_file(&schema, &rs, &vals, &ops, &wc, &Pres::canonical()) {
			Ok(f) => f,
			Err(_) => return,
		};
		let rd = apache_avro::Reader::new(&file[..]);
		let got: Result<Vec<AV>, String> = match rd {
			Ok(r) => r.map(|x| x.map_err(|e| e.to_string())).collect(),
			Err(e) => Err(e.to_string()),
		};
		match got {
			Ok(g) if g == avs => ctx.count("apache_reads_crate_ok"),
			other => {
				// apache-avro has its own limitations (e.g. zero-count blocks); arbitrate with the reference
				let ref_ok = container::parse(&file).map_err(|e| e.0).and_then(|o| container::decode_values(&o, &rs)).map_or(false, |v| v == vals);
				if !ref_ok {
					ctx.violation(
						format!("crate-written-file-unreadable-by-apache-and-reference codec={}", codec.name()),
						case_seed,
						json!({"apache": format!("{:?}", other.map(|v| v.len()))}),
					);
					return;
				}
				ctx.count("apache_disagrees_but_reference_reads_it");
			}
		}
	}
}
#[cfg(not(feature = "apache"))]
fn apache_interop(_ctx: &mut Ctx, _case_seed: u64, _rng: &mut Rng) {}
