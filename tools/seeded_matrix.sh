#!/bin/bash
# runs every seeded change against the quick check of its property (plus closely related ones)
declare -A REL=( [C01]="C01" [C02]="C02 C13" [C03]="C03 C11" [C04]="C04" [C05]="C05" [C06]="C06" [C07]="C07" [C08]="C08 C18" [C09]="C09" [C09x]="C09" [C10]="C10" [C11]="C11" [C12]="C12" [C13]="C13" [C14]="C14" [C15]="C15" [C16]="C16" [C17]="C17" [C18]="C18 C08" [C19]="C19" [C20]="C20" [C01b]="C01" [C02b]="C02" [C03b]="C03 C12" [C04b]="C04" [C05b]="C05" [C06b]="C06 C16" [C07b]="C07" [C08b]="C08 C07" [C09b]="C09 C07" [C10b]="C10" [C11b]="C11 C05" [C12b]="C12" [C13b]="C13" [C14b]="C14" [C15b]="C15" [C16b]="C16" [C17b]="C17" [C18b]="C18 C08" [C19b]="C19 C09" [C20b]="C20" [C01c]="C01 C02" [C02c]="C02 C01" [C03c]="C03" [C04c]="C04 C03" [C05c]="C05 C15" [C06c]="C06 C05 C11" [C07c]="C07" [C08c]="C08" [C09c]="C09" [C10c]="C10" [C11c]="C11" [C12c]="C12" [C13c]="C13" [C14c]="C14" [C15c]="C15" [C16c]="C16" [C17c]="C17" [C18c]="C18" [C19c]="C19" [C20c]="C20" )
OUT=${MATRIX_OUT:-/verif/seeded/RESULTS.txt}; : > $OUT
for id in ${1:-C01 C02 C03 C04 C05 C06 C07 C08 C09 C09x C10 C11 C12 C13 C14 C15 C16 C17 C18 C19 C20 C01b C02b C03b C04b C05b C06b C07b C08b C09b C10b C11b C12b C13b C14b C15b C16b C17b C18b C19b C20b C01c C02c C03c C04c C05c C06c C07c C08c C09c C10c C11c C12c C13c C14c C15c C16c C17c C18c C19c C20c}; do
  /verif/tools/try_seeded.sh $id ${REL[$id]} >> $OUT 2>&1
done
echo DONE >> $OUT
