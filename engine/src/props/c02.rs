//! C02 — encoder soundness: Ok means spec-exact bytes; unrepresentable values fail.
//! The (node kind x serde call) matrix is enumerated; values are boundary-biased.

use crate::bridge::call::Call;
use crate::bridge::present::decimal_to_string;
use crate::gen::value::ValueGen;
use crate::refavro::expect::{expect, Expect, Opts};
use crate::refavro::schema::*;
use crate::refavro::value::{decode_datum, hex, Val};
use crate::rng::Rng;
use crate::run::{Ctx, PropSpec};
use crate::sut::err_sig;
use serde_json::json;

pub const SPEC: PropSpec = PropSpec {
	id: "C02",
	level: "exploration",
	rule: "cells of the matrix (schema node kind x serde Serializer entry point) are all visited (cell index = f(case seed), ~790 cells, tens of thousands of cases each), each with a boundary-biased payload (range edges, enum index n-1/n/n+1, fixed length +-1, decimal bytes with the high bit set, permuted/missing/unknown/duplicated record fields, twin union branches, unions of 3-8 branches in random order where several branches accept the same Rust type with different suitability); every union cell is followed by an order probe: the same call against the same union with its branches permuted must give Err in both or select the same branch with the same value; a case is non-trivial when the serializer returned Ok or the reference demands Err; distinct by hash(schema, call tree)",
	assumptions: &[
		"reference decoder and the expectation table (engine/src/refavro/expect.rs) follow the Avro specification; outcomes the statement does not pin are classified Unspecified and only checked for decodability",
	],
	cases: (50_000_000, 4_000_000_000),
	secs: (30, 600),
	required: &["outcome:ok-exact", "outcome:err-as-required", "cells_hit", "union_order_probes", "union_order_probes_ok_selected", "datum_into_short_writing_sink_equal"],
	run_case,
	once: None,
	panics_are_violations: true,
	cpu_kill_secs: 60,
	max_workers: 16,
};

pub const NODE_KINDS: &[&str] = &[
	"null", "boolean", "int", "long", "float", "double", "bytes", "string", "fixed", "enum", "array", "map", "record", "union",
	"decimal-bytes", "decimal-fixed", "big-decimal", "uuid", "date", "time-millis", "time-micros", "timestamp-millis",
	"timestamp-micros", "duration",
];
pub const CALL_KINDS: &[&str] = &[
	"bool", "i8", "i16", "i32", "i64", "i128", "u8", "u16", "u32", "u64", "u128", "f32", "f64", "char", "str", "bytes", "none",
	"some", "unit", "unit_struct", "unit_variant", "newtype_struct", "newtype_variant", "seq", "seq_nohint", "tuple",
	"tuple_struct", "tuple_variant", "map", "map_nohint", "map_split", "struct", "struct_variant",
];

/// A union of 3-8 (one time in six 64-70) branches in random order, drawn from types that may legally share a union (one per unnamed type,
/// any number of named ones): several of them accept the same Rust type with different suitability
/// (f64: double / float / decimals; integers: int / long / float / double / decimals; str: string / enum / decimals;
/// bytes: bytes / fixed of that length / string), which is what type-directed selection has to rank.
fn wide_union(rng: &mut Rng) -> Vec<Node> {
	let mut pool: Vec<Node> = vec![
		prim(Kind::Null),
		prim(Kind::Boolean),
		prim(Kind::Int),
		prim(Kind::Long),
		prim(Kind::Float),
		prim(Kind::Double),
		match rng.below(3) {
			0 => prim(Kind::Bytes),
			1 => lprim(Kind::Bytes, Logical::Decimal { precision: 12, scale: *rng.pick(&[0u32, 2]) }),
			_ => lprim(Kind::Bytes, Logical::BigDecimal),
		},
		if rng.chance(3, 4) { prim(Kind::String) } else { lprim(Kind::String, Logical::Uuid) },
		prim(Kind::Fixed { name: "F4".into(), size: 4 }),
		lprim(Kind::Fixed { name: "ns.D8".into(), size: 8 }, Logical::Decimal { precision: 10, scale: *rng.pick(&[0u32, 1]) }),
		lprim(Kind::Fixed { name: "ns.Dur".into(), size: 12 }, Logical::Duration),
		prim(Kind::Enum { name: "E".into(), symbols: vec!["A".into(), "B".into(), "1".into()] }),
		// twins of the two above: equally suitable for the same calls
		prim(Kind::Enum { name: "x.E2".into(), symbols: vec!["B".into(), "A".into()] }),
		prim(Kind::Fixed { name: "G4".into(), size: 4 }),
	];
	rng.shuffle(&mut pool);
	let n = 3 + rng.below(6);
	pool.truncate(n);
	if rng.chance(1, 6) {
		// branch indices from 63 on: padded with named types, then shuffled so that any of the branches above sits at the edge
		let total = *rng.pick(&[64usize, 65, 66, 70]);
		let mut k = 0;
		while pool.len() < total {
			pool.push(prim(Kind::Fixed { name: format!("pad.P{k}"), size: 1 + k % 3 }));
			k += 1;
		}
		rng.shuffle(&mut pool);
	}
	let mut nodes = vec![prim(Kind::Union((1..=pool.len()).collect()))];
	nodes.extend(pool);
	nodes
}

/// The same union with its branches in another order (returns the permutation: new position -> old position)
fn permuted_union(rs: &RSchema, rng: &mut Rng) -> Option<(RSchema, Vec<usize>)> {
	let bs = match &rs.node(0).kind {
		Kind::Union(bs) if bs.len() >= 2 => bs.clone(),
		_ => return None,
	};
	let mut perm: Vec<usize> = (0..bs.len()).collect();
	match rng.below(3) {
		0 => perm.reverse(),
		1 => perm.rotate_left(1),
		_ => rng.shuffle(&mut perm),
	}
	if perm.iter().enumerate().all(|(i, &p)| i == p) {
		return None;
	}
	let mut rs2 = rs.clone();
	rs2.nodes[0].kind = Kind::Union(perm.iter().map(|&p| bs[p]).collect());
	Some((rs2, perm))
}

/// Which branch a call selects is a matter of the branches' types (and names), not of their positions: the same call
/// against the same union with its branches reordered must have the same outcome - Err in both, or the same branch
/// (followed through the permutation) with the same value.
fn order_invariance(ctx: &mut Ctx, case_seed: u64, rs: &RSchema, call: &Call, allow_slow: bool, rng: &mut Rng) {
	let (rs2, perm) = match permuted_union(rs, rng) {
		Some(x) => x,
		None => return,
	};
	let run = |r: &RSchema| -> Option<Result<Val, String>> {
		let schema = r.to_schema_mut().freeze().ok()?;
		let mut cfg = serde_avro_fast::ser::SerializerConfig::new(&schema);
		if allow_slow {
			cfg.allow_slow_sequence_to_bytes();
		}
		Some(match serde_avro_fast::to_datum_vec(call, &mut cfg) {
			Err(e) => Err(e.to_string()),
			Ok(b) => match decode_datum(r, &b) {
				Ok((v, used)) if used == b.len() => Ok(v),
				_ => return None, // undecodable output is judged by the cell check
			},
		})
	};
	let (a, b) = match (run(rs), run(&rs2)) {
		(Some(a), Some(b)) => (a, b),
		_ => return,
	};
	ctx.count("union_order_probes");
	// express b's branch in a's numbering
	let b_mapped = b.clone().map(|v| match v {
		Val::Union(i, x) => Val::Union(perm[i], x),
		other => other,
	});
	let same = match (&a, &b_mapped) {
		(Err(_), Err(_)) => true,
		(Ok(x), Ok(y)) => x == y,
		_ => false,
	};
	if same {
		if a.is_ok() {
			ctx.count("union_order_probes_ok_selected");
		}
		return;
	}
	let class = match (&a, &b) {
		(Ok(_), Ok(_)) => "different-branch",
		_ => "ok-in-one-order-err-in-the-other",
	};
	ctx.violation(
		format!("union-selection-depends-on-branch-order {class} call={}", call.kind()),
		case_seed,
		json!({"schema_a": rs.spell(None).compact(), "schema_b": rs2.spell(None).compact(), "call": call.short(), "outcome_a": format!("{a:?}").chars().take(300).collect::<String>(), "outcome_b": format!("{b:?}").chars().take(300).collect::<String>()}),
	);
}

/// a duration component as some integer call: mostly u32, otherwise any width, inside or outside 0..2^32
fn duration_component(rng: &mut Rng) -> Call {
	match rng.below(12) {
		0 => Call::I8(*rng.pick(&[-1i8, 0, 5, i8::MIN, i8::MAX])),
		1 => Call::I16(*rng.pick(&[-1i16, 7, i16::MIN, i16::MAX])),
		2 => Call::I32(*rng.pick(&[-1i32, 5, i32::MIN, i32::MAX])),
		3 => Call::I64(*rng.pick(&[-1i64, 9, u32::MAX as i64, u32::MAX as i64 + 1, i64::MIN])),
		4 => Call::U8(rng.next_u32() as u8),
		5 => Call::U16(rng.next_u32() as u16),
		6 => Call::U64(*rng.pick(&[0u64, u32::MAX as u64, u32::MAX as u64 + 1, u64::MAX])),
		7 => Call::I128(*rng.pick(&[-1i128, 3, 1 << 40])),
		_ => Call::U32(*rng.pick(&[0, 1, u32::MAX, 1 << 31, 12345])),
	}
}

fn prim(k: Kind) -> Node {
	Node { kind: k, logical: None }
}
fn lprim(k: Kind, l: Logical) -> Node {
	Node {
		kind: k,
		logical: Some(l),
	}
}

pub fn node_schema(kind: &str, rng: &mut Rng) -> RSchema {
	let nodes = match kind {
		"null" => vec![prim(Kind::Null)],
		"boolean" => vec![prim(Kind::Boolean)],
		"int" => vec![prim(Kind::Int)],
		"long" => vec![prim(Kind::Long)],
		"float" => vec![prim(Kind::Float)],
		"double" => vec![prim(Kind::Double)],
		"bytes" => vec![prim(Kind::Bytes)],
		"string" => vec![prim(Kind::String)],
		"fixed" => vec![prim(Kind::Fixed {
			name: "ns.Fx".into(),
			size: *rng.pick(&[0usize, 1, 4, 12, 16]),
		})],
		"enum" => {
			let n = 1 + rng.below(4);
			vec![prim(Kind::Enum {
				name: "ns.En".into(),
				symbols: ["A", "B", "Null", "d"][..n].iter().map(|s| s.to_string()).collect(),
			})]
		}
		"array" => vec![prim(Kind::Array(1)), prim(Kind::Int)],
		"map" => vec![prim(Kind::Map(1)), prim(Kind::Long)],
		"record" => vec![
			prim(Kind::Record {
				name: "ns.Rec".into(),
				fields: vec![("a".into(), 1), ("b".into(), 2), ("c".into(), 5), ("d".into(), 6)],
			}),
			prim(Kind::Int),
			prim(Kind::Union(vec![3, 4])),
			prim(Kind::Null),
			prim(Kind::String),
			prim(Kind::Null),
			prim(Kind::Union(vec![7, 8])),
			prim(Kind::Long),
			prim(Kind::Null),
		],
		"union" => match rng.below(14) {
			10..=13 => wide_union(rng),
			0 => vec![prim(Kind::Union(vec![1, 2])), prim(Kind::Null), prim(Kind::Int)],
			1 => vec![prim(Kind::Union(vec![1, 2])), prim(Kind::Int), prim(Kind::Long)],
			2 => vec![prim(Kind::Union(vec![1, 2, 3])), prim(Kind::Null), prim(Kind::String), prim(Kind::Bytes)],
			3 => vec![
				prim(Kind::Union(vec![1, 3])),
				prim(Kind::Record {
					name: "a.RecA".into(),
					fields: vec![("x".into(), 2)],
				}),
				prim(Kind::Int),
				prim(Kind::Record {
					name: "b.RecB".into(),
					fields: vec![("x".into(), 2)],
				}),
			],
			4 => vec![
				prim(Kind::Union(vec![1, 2])),
				prim(Kind::Enum {
					name: "EnA".into(),
					symbols: vec!["A".into(), "B".into()],
				}),
				prim(Kind::Enum {
					name: "x.EnA".into(),
					symbols: vec!["B".into(), "A".into(), "C".into()],
				}),
			],
			5 => vec![
				prim(Kind::Union(vec![1, 2])),
				prim(Kind::Fixed {
					name: "F4a".into(),
					size: 4,
				}),
				prim(Kind::Fixed {
					name: "F4b".into(),
					size: 4,
				}),
			],
			6 => vec![
				prim(Kind::Union(vec![1, 3])),
				prim(Kind::Map(2)),
				prim(Kind::Int),
				prim(Kind::Record {
					name: "R".into(),
					fields: vec![("x".into(), 2)],
				}),
			],
			7 => vec![
				prim(Kind::Union(vec![1, 2, 4, 5, 6])),
				prim(Kind::Null),
				prim(Kind::Record {
					name: "n.R".into(),
					fields: vec![("x".into(), 3)],
				}),
				prim(Kind::Int),
				prim(Kind::Int),
				prim(Kind::String),
				prim(Kind::Array(3)),
			],
			8 => vec![prim(Kind::Union(vec![1, 2])), prim(Kind::Float), prim(Kind::Double)],
			_ => vec![
				prim(Kind::Union(vec![1, 2, 3])),
				prim(Kind::Int),
				lprim(
					Kind::Bytes,
					Logical::Decimal {
						precision: 10,
						scale: 0,
					},
				),
				lprim(
					Kind::Fixed {
						name: "D2".into(),
						size: 2,
					},
					Logical::Decimal { precision: 4, scale: 0 },
				),
			],
		},
		"decimal-bytes" => vec![lprim(
			Kind::Bytes,
			Logical::Decimal {
				precision: 20,
				scale: *rng.pick(&[0u32, 0, 1, 2, 5]),
			},
		)],
		"decimal-fixed" => vec![lprim(
			Kind::Fixed {
				name: "ns.Dec".into(),
				size: *rng.pick(&[1usize, 1, 2, 3, 4, 8, 15, 16]),
			},
			Logical::Decimal {
				precision: 20,
				scale: *rng.pick(&[0u32, 0, 0, 1, 2]),
			},
		)],
		"big-decimal" => vec![lprim(Kind::Bytes, Logical::BigDecimal)],
		"uuid" => vec![lprim(Kind::String, Logical::Uuid)],
		"date" => vec![lprim(Kind::Int, Logical::Date)],
		"time-millis" => vec![lprim(Kind::Int, Logical::TimeMillis)],
		"time-micros" => vec![lprim(Kind::Long, Logical::TimeMicros)],
		"timestamp-millis" => vec![lprim(Kind::Long, Logical::TimestampMillis)],
		"timestamp-micros" => vec![lprim(Kind::Long, Logical::TimestampMicros)],
		"duration" => vec![lprim(
			Kind::Fixed {
				name: "ns.Dur".into(),
				size: 12,
			},
			Logical::Duration,
		)],
		_ => unreachable!(),
	};
	RSchema { nodes }
}

/// an integer payload biased to what is interesting for the node
fn int_payload(rs: &RSchema, id: Id, rng: &mut Rng) -> i128 {
	match rs.eff(id) {
		Eff::Int => match rng.below(4) {
			0 => ValueGen::interesting_i32(rng) as i128,
			1 => *rng.pick(&[i32::MAX as i128 + 1, i32::MIN as i128 - 1, 1 << 32, -(1 << 40), u32::MAX as i128]),
			_ => ValueGen::interesting_i64(rng) as i128,
		},
		Eff::Long => match rng.below(4) {
			0 => ValueGen::interesting_i64(rng) as i128,
			1 => *rng.pick(&[i64::MAX as i128 + 1, i64::MIN as i128 - 1, u64::MAX as i128, 1 << 100, -(1 << 90)]),
			_ => ValueGen::interesting_i64(rng) as i128,
		},
		Eff::Enum => {
			let n = match &rs.node(id).kind {
				Kind::Enum { symbols, .. } => symbols.len() as i128,
				_ => 1,
			};
			*rng.pick(&[-1, 0, 0, n - 1, n - 1, n, n + 1, 7, 255, 1 << 40, i64::MIN as i128])
		}
		Eff::DecimalFixed { size, scale } => {
			let p = 10i128.pow(scale);
			let edge = if size == 0 || size >= 16 {
				i64::MAX as i128
			} else {
				1i128 << (8 * size as u32 - 1)
			};
			let base = match rng.below(6) {
				0 => edge / p,
				1 => -(edge / p),
				2 => edge / p + 1,
				3 => -(edge / p) - 1,
				4 => *rng.pick(&[0, 1, -1, 127, 128, 200, 255, 256, 300, -128, -129, -200, 32767, 32768, 65535]),
				_ => rng.range(-70000, 70000) as i128,
			};
			base + rng.range(-1, 1) as i128
		}
		Eff::DecimalBytes { .. } | Eff::BigDecimal => match rng.below(4) {
			0 => *rng.pick(&[0, 1, -1, 127, 128, 129, 200, 255, 256, -127, -128, -129, -255, -256, 32767, 32768, 65535, 65536]),
			1 => {
				let k = 8 * (1 + rng.below(15)) as u32 - 1;
				let b = 1i128 << k;
				let d = rng.range(-2, 2) as i128;
				if rng.coin() {
					b + d
				} else {
					-(b + d)
				}
			}
			_ => ValueGen::interesting_i64(rng) as i128,
		},
		_ => rng.range(-300, 300) as i128,
	}
}

fn int_call(kind: &str, n: i128, rng: &mut Rng) -> Call {
	macro_rules! mk {
		($t:ty, $v:ident) => {{
			match <$t>::try_from(n) {
				Ok(x) => Call::$v(x),
				Err(_) => Call::$v(rng.next_u64() as $t),
			}
		}};
	}
	match kind {
		"i8" => mk!(i8, I8),
		"i16" => mk!(i16, I16),
		"i32" => mk!(i32, I32),
		"i64" => mk!(i64, I64),
		"i128" => Call::I128(n),
		"u8" => mk!(u8, U8),
		"u16" => mk!(u16, U16),
		"u32" => mk!(u32, U32),
		"u64" => mk!(u64, U64),
		_ => match u128::try_from(n) {
			Ok(x) => {
				if rng.chance(1, 10) {
					Call::U128(u128::MAX - x)
				} else {
					Call::U128(x)
				}
			}
			Err(_) => Call::U128(rng.next_u64() as u128),
		},
	}
}

pub fn canonical_call(rs: &RSchema, id: Id, v: &Val) -> Call {
	match (rs.eff(id), v) {
		(_, Val::Null) => Call::Unit,
		(_, Val::Bool(b)) => Call::Bool(*b),
		(_, Val::Int(i)) => Call::I32(*i),
		(_, Val::Long(i)) => Call::I64(*i),
		(_, Val::Float(b)) => Call::F32(*b),
		(_, Val::Double(b)) => Call::F64(*b),
		(_, Val::Bytes(b)) | (_, Val::Fixed(b)) => Call::Bytes(b.clone()),
		(_, Val::Str(s)) => Call::Str(s.clone()),
		(_, Val::Enum(i)) => match &rs.node(id).kind {
			Kind::Enum { symbols, name } => Call::UnitVariant(split_fullname(name).1.to_owned(), *i as u32, symbols[*i].clone()),
			_ => Call::Unit,
		},
		(Eff::Array(item), Val::Array(xs)) => Call::Seq(Some(xs.len()), xs.iter().map(|x| canonical_call(rs, item, x)).collect()),
		(Eff::Map(item), Val::Map(es)) => Call::Map(
			Some(es.len()),
			es.iter()
				.map(|(k, x)| (Call::Str(k.clone()), canonical_call(rs, item, x)))
				.collect(),
			false,
		),
		(Eff::Union(bs), Val::Union(i, x)) => Call::NewtypeVariant(rs.branch_name(bs[*i]), Box::new(canonical_call(rs, bs[*i], x))),
		(Eff::Record, Val::Record(xs)) => match &rs.node(id).kind {
			Kind::Record { name, fields } => Call::Struct(
				name.clone(),
				fields
					.iter()
					.zip(xs)
					.map(|((n, fid), x)| (n.clone(), canonical_call(rs, *fid, x)))
					.collect(),
			),
			_ => Call::Unit,
		},
		(Eff::DecimalBytes { scale }, Val::Decimal(u)) | (Eff::DecimalFixed { scale, .. }, Val::Decimal(u)) => {
			Call::Str(decimal_to_string(*u, scale))
		}
		(_, Val::BigDecimal(u, sc)) => Call::Str(decimal_to_string(*u, *sc)),
		(_, Val::Duration(a, b, c)) => Call::Tuple(vec![Call::U32(*a), Call::U32(*b), Call::U32(*c)]),
		_ => Call::Unit,
	}
}

fn scalar_kind(rng: &mut Rng) -> &'static str {
	*rng.pick(&["bool", "i32", "i64", "u8", "u64", "f32", "f64", "str", "bytes", "unit", "unit_variant", "i128"])
}

fn name_for(rs: &RSchema, id: Id, rng: &mut Rng) -> String {
	let mut pool: Vec<String> = vec!["Other".into(), "Null".into(), "String".into(), "Int".into()];
	let ids: Vec<Id> = match rs.eff(id) {
		Eff::Union(bs) => bs,
		_ => vec![id],
	};
	for b in ids {
		pool.push(rs.branch_name(b));
		if let Some(f) = rs.fullname(b) {
			pool.push(split_fullname(f).1.to_owned());
		}
		if let Kind::Enum { symbols, .. } = &rs.node(b).kind {
			pool.extend(symbols.iter().cloned());
		}
	}
	rng.pick(&pool).clone()
}

pub fn gen_call(rs: &RSchema, id: Id, kind: &str, rng: &mut Rng, depth: usize) -> Call {
	// for unions most payloads are generated as for one of the branches
	let target = match rs.eff(id) {
		Eff::Union(bs) => *rng.pick(&bs),
		_ => id,
	};
	match kind {
		"bool" => Call::Bool(rng.coin()),
		"i8" | "i16" | "i32" | "i64" | "i128" | "u8" | "u16" | "u32" | "u64" | "u128" => {
			let n = int_payload(rs, target, rng);
			int_call(kind, n, rng)
		}
		"f32" => Call::F32(match rng.below(3) {
			0 => (rng.range(-1000, 1000) as f32).to_bits(),
			_ => ValueGen::interesting_f32(rng),
		}),
		"f64" => Call::F64(match rng.below(4) {
			0 => (rng.range(-1000, 1000) as f64).to_bits(),
			1 => ((rng.range(-1000, 1000) as f32 * 0.5) as f64).to_bits(),
			_ => ValueGen::interesting_f64(rng),
		}),
		"char" => Call::Char(*rng.pick(&['A', 'B', 'é', '☃', '\0', 'd', '7'])),
		"str" => Call::Str(match rs.eff(target) {
			Eff::Enum => name_for(rs, target, rng),
			Eff::Fixed(n) => {
				let len = (n as i64 + rng.range(-1, 1)).max(0) as usize;
				"x".repeat(len)
			}
			Eff::DecimalBytes { .. } | Eff::DecimalFixed { .. } | Eff::BigDecimal => match rng.below(6) {
				0 => format!("{}", rng.range(-70000, 70000)),
				1 => format!("{}.{}", rng.range(-300, 300), rng.range(0, 99)),
				2 => (*rng.pick(&["1.25", "-0.5", "200", "0.001", "127", "128", "-128", "-129", "255.5", "1.005", "79228162514264337593543950335", "abc", ""])).to_owned(),
				3 => decimal_to_string(ValueGen::decimal_unscaled(rng, crate::gen::value::MANTISSA_96_MAX), *rng.pick(&[0u32, 1, 2, 5, 28])),
				_ => format!("{}.{:02}", rng.range(-40000, 40000), rng.range(0, 99)),
			},
			_ => ValueGen::new(rs).string(rng),
		}),
		"bytes" => Call::Bytes(match rs.eff(target) {
			Eff::String => {
				if rng.coin() {
					vec![0xFF, 0xFE, b'a']
				} else {
					"valid é".as_bytes().to_vec()
				}
			}
			Eff::Fixed(n) => {
				let len = (n as i64 + rng.range(-1, 1)).max(0) as usize;
				rng.bytes(len)
			}
			Eff::Duration => {
				let len = (12 + rng.range(-1, 1)) as usize;
				rng.bytes(len)
			}
			_ => ValueGen::new(rs).bytes(rng),
		}),
		"none" => Call::None,
		"unit" => Call::Unit,
		"unit_struct" => Call::UnitStruct(name_for(rs, id, rng)),
		"unit_variant" => {
			// the Rust enum's own name is "Enum", or the Avro name of the target (what a derived type usually has), with a
			// variant index that is the Rust declaration order - unrelated to the schema's symbol order
			let rust_enum = match rs.fullname(target) {
				Some(f) if rng.coin() => split_fullname(f).1.to_owned(),
				_ => "Enum".to_owned(),
			};
			Call::UnitVariant(rust_enum, rng.below(6) as u32, name_for(rs, id, rng))
		}
		"some" => Call::Some(Box::new(gen_call(rs, id, scalar_or_conforming(rs, id, rng), rng, depth + 1))),
		"newtype_struct" => Call::NewtypeStruct(
			name_for(rs, id, rng),
			Box::new(gen_call(rs, id, scalar_or_conforming(rs, id, rng), rng, depth + 1)),
		),
		"newtype_variant" => match rs.eff(id) {
			Eff::Union(bs) => {
				let b = *rng.pick(&bs);
				let name = if rng.chance(3, 4) {
					rs.branch_name(b)
				} else {
					name_for(rs, id, rng)
				};
				let inner = if rng.chance(3, 4) {
					let mut vg = ValueGen::new(rs);
					vg.budget = 10;
					let v = vg_node(&mut vg, b, rng);
					let c = canonical_call(rs, b, &v);
					// strip a nested selection for non-union branches (canonical_call of a branch value is plain)
					c
				} else {
					gen_call(rs, b, scalar_kind(rng), rng, depth + 1)
				};
				Call::NewtypeVariant(name, Box::new(inner))
			}
			_ => Call::NewtypeVariant(
				name_for(rs, id, rng),
				Box::new(gen_call(rs, id, scalar_or_conforming(rs, id, rng), rng, depth + 1)),
			),
		},
		"seq" | "seq_nohint" | "tuple" | "tuple_struct" | "tuple_variant" => {
			let mut elems: Vec<Call> = match rs.eff(target) {
				Eff::Array(item) => {
					let n = rng.below(5);
					(0..n)
						.map(|_| {
							if rng.chance(1, 10) {
								Call::I64(i32::MAX as i64 + 1)
							} else {
								gen_call(rs, item, "i32", rng, depth + 1)
							}
						})
						.collect()
				}
				Eff::Fixed(n) => {
					let len = (n as i64 + *rng.pick(&[0, 0, 0, -1, 1])).max(0) as usize;
					byte_elems(len, rng)
				}
				Eff::Duration => {
					let len = *rng.pick(&[3usize, 3, 3, 2, 4]);
					(0..len).map(|_| duration_component(rng)).collect()
				}
				_ => {
					let len = rng.below(6);
					byte_elems(len, rng)
				}
			};
			match kind {
				"seq" => {
					let hint = (elems.len() as i64 + *rng.pick(&[0, 0, 0, 0, 1, -1])).max(0) as usize;
					Call::Seq(Some(hint), std::mem::take(&mut elems))
				}
				"seq_nohint" => Call::Seq(None, elems),
				"tuple" => Call::Tuple(elems),
				"tuple_struct" => Call::TupleStruct(name_for(rs, id, rng), elems),
				_ => Call::TupleVariant(name_for(rs, id, rng), elems),
			}
		}
		_ => {
			// map-like presentations
			let mut entries: Vec<(String, Call)> = match rs.eff(target) {
				Eff::Record => {
					let fields = match &rs.node(target).kind {
						Kind::Record { fields, .. } => fields.clone(),
						_ => vec![],
					};
					let mut es: Vec<(String, Call)> = Vec::new();
					for (fname, fid) in &fields {
						let mut vg = ValueGen::new(rs);
						vg.budget = 5;
						let v = vg_node(&mut vg, *fid, rng);
						// present union fields by type (their branches are distinguishable)
						let c = match (&rs.eff(*fid), &v) {
							(Eff::Union(bs), Val::Union(i, x)) => canonical_call(rs, bs[*i], x),
							_ => canonical_call(rs, *fid, &v),
						};
						es.push((fname.clone(), c));
					}
					match rng.below(8) {
						0 => {
							// drop a random field
							if !es.is_empty() {
								let k = rng.below(es.len());
								es.remove(k);
							}
						}
						1 => es.push(("zzz_unknown".into(), Call::I32(1))),
						2 => {
							if !es.is_empty() {
								let k = rng.below(es.len());
								let dup = es[k].clone();
								let at = rng.below(es.len() + 1);
								es.insert(at, dup);
							}
						}
						3 => {
							// drop every nullable field
							es.retain(|(n, _)| n == "a");
						}
						_ => {}
					}
					if rng.coin() {
						rng.shuffle(&mut es);
					}
					es
				}
				Eff::Duration => {
					let mut es = vec![
						("months".to_string(), if rng.coin() { Call::U32(rng.next_u32()) } else { duration_component(rng) }),
						("days".to_string(), if rng.coin() { Call::U32(*rng.pick(&[0, u32::MAX])) } else { duration_component(rng) }),
						("milliseconds".to_string(), if rng.coin() { Call::U32(rng.next_u32()) } else { duration_component(rng) }),
					];
					match rng.below(6) {
						0 => {
							es.pop();
						}
						1 => es.push(("days".to_string(), Call::U32(1))),
						2 => es.push(("years".to_string(), Call::U32(1))),
						_ => {}
					}
					rng.shuffle(&mut es);
					es
				}
				Eff::Map(item) => {
					let n = rng.below(4);
					(0..n)
						.map(|i| (format!("k{i}"), gen_call(rs, item, "i64", rng, depth + 1)))
						.collect()
				}
				_ => {
					let n = rng.below(3);
					(0..n).map(|i| (format!("k{i}"), Call::I32(i as i32))).collect()
				}
			};
			match kind {
				"map" => {
					let hint = (entries.len() as i64 + *rng.pick(&[0, 0, 0, 0, 1, -1])).max(0) as usize;
					Call::Map(Some(hint), entries.drain(..).map(|(k, v)| (Call::Str(k), v)).collect(), false)
				}
				"map_nohint" => Call::Map(None, entries.drain(..).map(|(k, v)| (Call::Str(k), v)).collect(), false),
				"map_split" => Call::Map(None, entries.drain(..).map(|(k, v)| (Call::Str(k), v)).collect(), true),
				"struct" => Call::Struct(struct_name(rs, target, rng), entries),
				_ => Call::StructVariant(struct_name(rs, target, rng), entries),
			}
		}
	}
}

fn struct_name(rs: &RSchema, id: Id, rng: &mut Rng) -> String {
	match rs.fullname(id) {
		Some(f) if rng.chance(2, 3) => f.to_owned(),
		Some(f) if rng.coin() => split_fullname(f).1.to_owned(),
		_ => "Anon".into(),
	}
}

fn byte_elems(len: usize, rng: &mut Rng) -> Vec<Call> {
	(0..len)
		.map(|_| match rng.below(12) {
			0 => Call::U16(256),
			1 => Call::I8(-1),
			2 => Call::I64(rng.below(256) as i64),
			3 => Call::U128(rng.below(256) as u128),
			_ => Call::U8(rng.next_u32() as u8),
		})
		.collect()
}

fn vg_node(vg: &mut ValueGen, id: Id, rng: &mut Rng) -> Val {
	vg.gen_at(id, rng)
}

fn scalar_or_conforming(rs: &RSchema, id: Id, rng: &mut Rng) -> &'static str {
	let t = match rs.eff(id) {
		Eff::Union(bs) => *rng.pick(&bs),
		_ => id,
	};
	if rng.chance(1, 4) {
		return scalar_kind(rng);
	}
	match rs.eff(t) {
		Eff::Null => "unit",
		Eff::Boolean => "bool",
		Eff::Int => "i32",
		Eff::Long => "i64",
		Eff::Float => "f32",
		Eff::Double => "f64",
		Eff::Bytes | Eff::Fixed(_) => "bytes",
		Eff::String => "str",
		Eff::Enum => "unit_variant",
		Eff::Array(_) => "seq",
		Eff::Map(_) => "map",
		Eff::Record => "struct",
		Eff::Union(_) => "unit",
		Eff::DecimalBytes { .. } | Eff::DecimalFixed { .. } | Eff::BigDecimal => *rng.pick(&["str", "i64", "u8", "i128"]),
		Eff::Duration => "tuple",
	}
}

pub fn run_case(ctx: &mut Ctx, case_seed: u64) {
	let mut rng = Rng::new(case_seed);
	let ncells = NODE_KINDS.len() * CALL_KINDS.len();
	// the cell is a function of the case seed alone (replayable); over a run every cell is hit
	let cell = ((case_seed >> 11) % ncells as u64) as usize;
	let nk = NODE_KINDS[cell / CALL_KINDS.len()];
	let ck = CALL_KINDS[cell % CALL_KINDS.len()];
	let rs = node_schema(nk, &mut rng);
	let call = gen_call(&rs, 0, ck, &mut rng, 0);
	let allow_slow = rng.coin();
	judge(ctx, case_seed, nk, &rs, &call, allow_slow, &mut rng);
	if nk == "union" {
		order_invariance(ctx, case_seed, &rs, &call, allow_slow, &mut rng);
	}
}

pub fn judge(ctx: &mut Ctx, case_seed: u64, nk: &str, rs: &RSchema, call: &Call, allow_slow: bool, rng: &mut Rng) {
	let via = if rng.coin() {
		crate::sut::SchemaVia::PlainText
	} else {
		crate::sut::SchemaVia::Builder
	};
	let (schema, _) = crate::sut::make_schema(rs, via, rng);
	let schema = match schema {
		Ok(s) => s,
		Err(e) => {
			ctx.violation(format!("schema-rejected node={nk} {}", err_sig(&e)), case_seed, json!({"schema": rs.spell(None).compact(), "error": e}));
			return;
		}
	};
	let mut cfg = serde_avro_fast::ser::SerializerConfig::new(&schema);
	if allow_slow {
		cfg.allow_slow_sequence_to_bytes();
	}
	let res = serde_avro_fast::to_datum_vec(call, &mut cfg).map_err(|e| e.to_string());
	if let (Ok(bytes), true) = (&res, rng.chance(1, 6)) {
		// what reaches a writer that accepts only part of each write must be the same bytes
		let (sched, native) = crate::sut::pick_datum_sink_schedule(rng);
		let mut cfg2 = serde_avro_fast::ser::SerializerConfig::new(&schema);
		if allow_slow {
			cfg2.allow_slow_sequence_to_bytes();
		}
		let got = serde_avro_fast::to_datum(call, crate::io::ScheduledSink::new(sched.clone(), native), &mut cfg2).map(|s| s.out).map_err(|e| e.to_string());
		if got.as_ref().ok() != Some(bytes) {
			ctx.violation(
				format!("bytes-depend-on-the-writer's-write-granularity call={}", call.kind()),
				case_seed,
				json!({"schema": rs.spell(None).compact(), "call": call.short(), "into_vec": hex(bytes), "into_sink": format!("{:?}", got.map(|b| hex(&b))).chars().take(500).collect::<String>(), "schedule": sched, "native_write_vectored": native}),
			);
			return;
		}
		ctx.count("datum_into_short_writing_sink_equal");
	}
	let exp = expect(rs, 0, call, &Opts { allow_slow_seq_to_bytes: allow_slow });
	let cellname = cell_name(nk, rs, call, res.as_ref().ok().map(|b| b.as_slice()));
	ctx.count("cells_hit");
	let detail = |extra: serde_json::Value| {
		json!({"schema": rs.spell(None).compact(), "call": call.short(), "allow_slow_sequence_to_bytes": allow_slow,
			"expectation": format!("{exp:?}").chars().take(400).collect::<String>(), "extra": extra})
	};
	let mut nontrivial = false;
	match (&res, &exp) {
		(Ok(bytes), _) => {
			nontrivial = true;
			let dec = decode_datum(rs, bytes);
			let decoded = match dec {
				Ok((v, used)) if used == bytes.len() => Some(v),
				_ => None,
			};
			match (&exp, decoded) {
				(_, None) => {
					let why = match &exp {
						Expect::MustErr(w) => *w,
						_ => "bytes are not a complete valid encoding",
					};
					ctx.violation(
						format!("cell={cellname} kind=ok-but-bytes-do-not-decode"),
						case_seed,
						detail(json!({"bytes": hex(bytes), "why": why})),
					);
					ctx.count(&format!("cell:{cellname}:VIOLATION"));
				}
				(Expect::AnyOf(vs), Some(v)) => {
					if vs.contains(&v) {
						ctx.count("outcome:ok-exact");
						ctx.count(&format!("cell:{cellname}:ok"));
					} else {
						ctx.violation(
							format!("cell={cellname} kind=ok-but-decodes-to-different-value"),
							case_seed,
							detail(json!({"bytes": hex(bytes), "decoded": v.to_json()})),
						);
						ctx.count(&format!("cell:{cellname}:VIOLATION"));
					}
				}
				(Expect::MustErr(w), Some(v)) => {
					ctx.violation(
						format!("cell={cellname} kind=ok-for-unrepresentable ({w})"),
						case_seed,
						detail(json!({"bytes": hex(bytes), "decoded": v.to_json()})),
					);
					ctx.count(&format!("cell:{cellname}:VIOLATION"));
				}
				(Expect::Lossy(_, w), Some(v)) => {
					ctx.violation(
						format!("cell={cellname} kind=ok-after-silent-rounding ({w})"),
						case_seed,
						detail(json!({"bytes": hex(bytes), "decoded": v.to_json()})),
					);
					ctx.count(&format!("cell:{cellname}:lossy"));
				}
				(Expect::Unspecified, Some(_)) => {
					ctx.count("outcome:ok-unspecified-decodable");
					ctx.count(&format!("cell:{cellname}:ok-unspecified"));
				}
			}
		}
		(Err(_), Expect::MustErr(_)) | (Err(_), Expect::Lossy(..)) => {
			nontrivial = true;
			ctx.count("outcome:err-as-required");
			ctx.count(&format!("cell:{cellname}:err-required"));
		}
		(Err(_), Expect::AnyOf(_)) => {
			ctx.count("outcome:rejected-though-representable");
			ctx.count(&format!("cell:{cellname}:rejected"));
		}
		(Err(_), Expect::Unspecified) => {
			ctx.count("outcome:err-unspecified");
			ctx.count(&format!("cell:{cellname}:err"));
		}
	}
	if nontrivial {
		ctx.distinct_bytes(&[rs.spell(None).compact().as_bytes(), format!("{call:?}").as_bytes()]);
	}
	ctx.sample(|| detail(json!({"result": format!("{res:?}").chars().take(200).collect::<String>()})));
}

/// name of the node kind as in NODE_KINDS
pub fn kind_name(rs: &RSchema, id: Id) -> &'static str {
	match (&rs.node(id).kind, rs.eff(id)) {
		(_, Eff::DecimalBytes { .. }) => "decimal-bytes",
		(_, Eff::DecimalFixed { .. }) => "decimal-fixed",
		(_, Eff::BigDecimal) => "big-decimal",
		(_, Eff::Duration) => "duration",
		(Kind::String, _) if matches!(rs.node(id).logical, Some(Logical::Uuid)) => "uuid",
		(Kind::Null, _) => "null",
		(Kind::Boolean, _) => "boolean",
		(Kind::Int, _) => "int",
		(Kind::Long, _) => "long",
		(Kind::Float, _) => "float",
		(Kind::Double, _) => "double",
		(Kind::Bytes, _) => "bytes",
		(Kind::String, _) => "string",
		(Kind::Array(_), _) => "array",
		(Kind::Map(_), _) => "map",
		(Kind::Union(_), _) => "union",
		(Kind::Record { .. }, _) => "record",
		(Kind::Enum { .. }, _) => "enum",
		(Kind::Fixed { .. }, _) => "fixed",
	}
}

/// Cell name with transparent wrappers peeled; for a union root that produced bytes, the branch
/// actually written is named (union>kind) so that findings are keyed on the cell that misbehaves.
pub fn cell_name(nk: &str, rs: &RSchema, call: &Call, bytes: Option<&[u8]>) -> String {
	let mut c = call;
	let is_union = matches!(rs.eff(0), Eff::Union(_));
	loop {
		match c {
			Call::Some(inner) | Call::NewtypeStruct(_, inner) => c = inner,
			Call::NewtypeVariant(_, inner) => c = inner,
			_ => break,
		}
	}
	if is_union {
		if let (Some(b), Eff::Union(bs)) = (bytes, rs.eff(0)) {
			let mut d = crate::refavro::value::Dec::new(b);
			d.lenient_varint = true;
			if let Ok(i) = d.long() {
				if let Some(&br) = usize::try_from(i).ok().and_then(|i| bs.get(i)) {
					return format!("union>{}/{}", kind_name(rs, br), c.kind());
				}
			}
		}
		return format!("union/{}", c.kind());
	}
	format!("{nk}/{}", c.kind())
}
