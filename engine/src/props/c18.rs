//! C18 — single-object encoding: marker + schema fingerprint + datum, verified on read.

use crate::bridge::present::{Pres, Present};
use crate::gen::schema::{gen_schema, shape_hash, SchemaGenCfg};
use crate::gen::value::ValueGen;
use crate::io::{schedule, ChunkedBufRead};
use crate::props::c11::AnyOwned;
use crate::refavro::schema::*;
use crate::refavro::value::*;
use crate::rng::Rng;
use crate::run::{Ctx, PropSpec};
use crate::sut::*;
use serde_json::json;

pub const SPEC: PropSpec = PropSpec {
	id: "C18",
	level: "exploration",
	rule: "case = schema A (random, incl. same short names in different namespaces) + value: to_single_object (into a Vec and into a sink accepting 1..4096 bytes per write call, with / without its own write_vectored) and to_single_object_vec must equal C3 01 ++ LE(bitwise CRC-64-AVRO of the reference canonical form) ++ to_datum(v); reading it back (slice and chunked reader) gives v; then (a) each of the 10 header bytes altered six ways (one low bit, the high bit, all bits, bit 4, forced to 0x00, forced to 0xFF), (b) every truncation length 0..=min(len,24), (c) a schema B derived from A by one canonical-form-changing edit (rename a type / field, swap two fields, change a symbol or a fixed size, reorder union branches, edit inside the second of two same-short-name types) must reject A's message, (d) a re-spelling of A (other namespace notation, doc/aliases, logical type dropped or added) must accept it; distinct by hash(schema shape, message, edit)",
	assumptions: &["a CRC collision between different canonical forms would be counted as inconclusive, not as a violation"],
	cases: (50_000_000, 4_000_000_000),
	secs: (30, 600),
	required: &["layout_ok", "layout_ok_on_short_writing_sink", "roundtrip_ok", "header_corruption_rejected", "truncation_rejected", "different_pcf_rejected", "same_pcf_accepted"],
	run_case,
	once: None,
	panics_are_violations: true,
	cpu_kill_secs: 60,
	max_workers: 16,
};

/// one edit that changes the canonical form; None when the schema offers no opportunity
pub fn pcf_changing_edit(rs: &RSchema, rng: &mut Rng) -> Option<(RSchema, &'static str)> {
	let mut out = rs.clone();
	let reach = rs.reachable();
	let mut tries = 0;
	while tries < 20 {
		tries += 1;
		let id = *rng.pick(&reach);
		let label: &'static str;
		let is_duration = matches!(out.nodes[id].logical, Some(Logical::Duration));
		match &mut out.nodes[id].kind {
			Kind::Record { name, fields } => match rng.below(4) {
				0 => {
					*name = format!("{name}_x");
					label = "rename-record";
				}
				1 if !fields.is_empty() => {
					let k = rng.below(fields.len());
					fields[k].0 = format!("{}_x", fields[k].0);
					label = "rename-field";
				}
				2 if fields.len() >= 2 => {
					let a = rng.below(fields.len());
					let b = (a + 1 + rng.below(fields.len() - 1)) % fields.len();
					fields.swap(a, b);
					label = "swap-fields";
				}
				_ => continue,
			},
			Kind::Enum { name, symbols } => match rng.below(3) {
				0 => {
					*name = format!("{name}_x");
					label = "rename-enum";
				}
				1 => {
					let k = rng.below(symbols.len());
					symbols[k] = format!("{}_x", symbols[k]);
					label = "change-symbol";
				}
				_ if symbols.len() >= 2 => {
					symbols.swap(0, 1);
					label = "swap-symbols";
				}
				_ => continue,
			},
			Kind::Fixed { name, size } => {
				if rng.coin() {
					if is_duration {
						continue;
					}
					*size += 1;
					label = "change-fixed-size";
				} else {
					*name = format!("{name}_x");
					label = "rename-fixed";
				}
			}
			Kind::Union(v) if v.len() >= 2 => {
				v.swap(0, 1);
				label = "swap-union-branches";
			}
			k @ Kind::Int => {
				*k = Kind::Long;
				label = "int-to-long";
			}
			k @ Kind::String => {
				*k = Kind::Bytes;
				label = "string-to-bytes";
			}
			_ => continue,
		}
		if matches!(label, "int-to-long" | "string-to-bytes") {
			out.nodes[id].logical = None;
		}
		if out.pcf() != rs.pcf() {
			return Some((out, label));
		}
		out = rs.clone();
	}
	None
}

/// a different description of the same canonical form
pub fn same_pcf_respelling(rs: &RSchema, rng: &mut Rng) -> (RSchema, &'static str) {
	let mut out = rs.clone();
	let reach = rs.reachable();
	let id = *rng.pick(&reach);
	let label = match (&out.nodes[id].kind, &out.nodes[id].logical) {
		(Kind::Int, None) => {
			out.nodes[id].logical = Some(Logical::Date);
			"add-logical-date"
		}
		(Kind::Long, None) => {
			out.nodes[id].logical = Some(Logical::TimestampMicros);
			"add-logical-timestamp"
		}
		(Kind::String, None) => {
			out.nodes[id].logical = Some(Logical::Uuid);
			"add-logical-uuid"
		}
		(_, Some(_)) if !matches!(out.nodes[id].kind, Kind::Union(_)) => {
			out.nodes[id].logical = None;
			"drop-logical"
		}
		_ => "text-respelling-only",
	};
	(out, label)
}

pub fn run_case(ctx: &mut Ctx, case_seed: u64) {
	let mut rng = Rng::new(case_seed);
	let mut cfg = SchemaGenCfg::default();
	cfg.max_nodes = *rng.pick(&[1, 4, 10, 24]);
	let rs = gen_schema(&mut rng, &cfg);
	let (schema, text) = make_schema(&rs, pick_via(&mut rng), &mut rng);
	let schema = match schema {
		Ok(s) => s,
		Err(e) => {
			ctx.violation(format!("schema-rejected {}", err_sig(&e)), case_seed, json!({"schema": rs.spell(None).compact(), "error": e, "text": text}));
			return;
		}
	};
	let mut vg = ValueGen::new(&rs);
	vg.budget = *rng.pick(&[5, 40, 200]);
	let v = vg.gen(&mut rng);
	let pres = Pres::random(&mut rng);
	let mut scfg = serde_avro_fast::ser::SerializerConfig::new(&schema);
	let datum = match serde_avro_fast::to_datum_vec(&Present::new(&rs, &v, &pres), &mut scfg) {
		Ok(b) => b,
		Err(_) => {
			ctx.count("datum_rejected_(C01_territory)");
			return;
		}
	};
	let pcf = rs.pcf();
	let fp = crc64_avro(pcf.as_bytes()).to_le_bytes();
	let mut expected = vec![0xC3, 0x01];
	expected.extend_from_slice(&fp);
	let describe = |extra: serde_json::Value| {
		json!({"schema": rs.spell(None).compact(), "schema_text_used": text, "reference_canonical_form": pcf, "reference_fingerprint_le": hex(&fp), "value": v.to_json(), "extra": extra})
	};
	// deterministic presentation needed for a byte comparison: use the canonical one
	let canon = Pres::canonical();
	let datum_c = match serde_avro_fast::to_datum_vec(&Present::new(&rs, &v, &canon), &mut scfg) {
		Ok(b) => b,
		Err(_) => datum.clone(),
	};
	let so = match serde_avro_fast::to_single_object_vec(&Present::new(&rs, &v, &canon), &mut scfg) {
		Ok(b) => b,
		Err(e) => {
			ctx.violation(format!("to_single_object-failed {}", err_sig(&e.to_string())), case_seed, describe(json!({"error": e.to_string()})));
			return;
		}
	};
	expected.extend_from_slice(&datum_c);
	if so != expected {
		let class = if so.len() >= 10 && so[2..10] != fp {
			"fingerprint-differs-from-reference"
		} else if so.len() < 2 || so[..2] != [0xC3, 0x01] {
			"marker"
		} else {
			"datum-part"
		};
		ctx.violation(
			format!("single-object-layout {class}"),
			case_seed,
			describe(json!({"got": hex(&so), "expected": hex(&expected), "crate_fingerprint": hex(schema.rabin_fingerprint())})),
		);
		return;
	}
	// also through the generic writer entry point
	match serde_avro_fast::to_single_object(&Present::new(&rs, &v, &canon), Vec::new(), &mut scfg) {
		Ok(b) if b == expected => {}
		other => {
			ctx.violation("to_single_object-writer-differs", case_seed, describe(json!({"got": format!("{:?}", other.map(|b| hex(&b)).map_err(|e| e.to_string()))})));
			return;
		}
	}
	// ... and into sinks that accept only part of each write, with or without a write_vectored of their own: the framing
	// (marker, fingerprint) must arrive whole whatever the sink's write granularity
	{
		let sched: Vec<usize> = match rng.below(4) {
			0 => vec![1],
			1 => vec![*rng.pick(&[2usize, 3, 5, 9, 10, 11])],
			2 => vec![4096],
			_ => (0..1 + rng.below(6)).map(|_| 1 + rng.below(16)).collect(),
		};
		let native = rng.coin();
		let sink = crate::io::ScheduledSink::new(sched.clone(), native);
		match serde_avro_fast::to_single_object(&Present::new(&rs, &v, &canon), sink, &mut scfg) {
			Ok(s) if s.out == expected => ctx.count("layout_ok_on_short_writing_sink"),
			other => {
				let class = match &other {
					Err(_) => "failed",
					Ok(s) if s.out.len() < expected.len() => "bytes-lost",
					Ok(s) if s.out.len() > expected.len() => "bytes-duplicated",
					_ => "bytes-altered",
				};
				ctx.violation(
					format!("to_single_object-depends-on-sink-write-granularity {class} native_write_vectored={native}"),
					case_seed,
					describe(json!({"schedule": sched, "native_write_vectored": native, "expected": hex(&expected), "got": format!("{:?}", other.map(|s| hex(&s.out)).map_err(|e| e.to_string()))})),
				);
				return;
			}
		}
	}
	ctx.count("layout_ok");
	// ---- read back
	let want_u = crate::bridge::collect::untyped(&rs, 0, &v);
	let a = serde_avro_fast::from_single_object_slice::<AnyOwned>(&so, &schema).map(|x| x.0).map_err(|e| e.to_string());
	if a.as_ref().ok() != Some(&want_u) {
		ctx.violation("single-object-read-slice", case_seed, describe(json!({"got": format!("{a:?}").chars().take(400).collect::<String>()})));
		return;
	}
	let sched = schedule(&mut rng, so.len());
	let b = serde_avro_fast::from_single_object_reader::<_, AnyOwned>(ChunkedBufRead::new(&so, sched.clone()), &schema)
		.map(|x| x.0)
		.map_err(|e| e.to_string());
	if b.as_ref().ok() != Some(&want_u) {
		ctx.violation("single-object-read-reader", case_seed, describe(json!({"schedule": sched, "got": format!("{b:?}").chars().take(400).collect::<String>()})));
		return;
	}
	ctx.count("roundtrip_ok");
	// ---- header corruptions
	for (k, alt) in (0..10).flat_map(|k| [0x01u8, 0x80, 0xFF, 0x10, 0x00, 0x02].into_iter().map(move |a| (k, a))) {
		let mut bad = so.clone();
		// single-bit and all-bit changes, plus the byte forced to 0x00 and to 0xFF
		match alt {
			0x00 => bad[k] = 0x00,
			0x02 => bad[k] = 0xFF,
			x => bad[k] ^= x,
		}
		if bad[k] == so[k] {
			continue;
		}
		let r1 = serde_avro_fast::from_single_object_slice::<AnyOwned>(&bad, &schema).is_ok();
		let r2 = serde_avro_fast::from_single_object_reader::<_, AnyOwned>(ChunkedBufRead::new(&bad, vec![1 + rng.below(4)]), &schema).is_ok();
		if r1 || r2 {
			ctx.violation(
				format!("corrupted-header-accepted byte={}", if k < 2 { "marker" } else { "fingerprint" }),
				case_seed,
				describe(json!({"byte_index": k, "message": hex(&bad), "slice_ok": r1, "reader_ok": r2})),
			);
			return;
		}
		ctx.count("header_corruption_rejected");
	}
	// ---- truncations
	for cut in 0..so.len().min(25) {
		let p = &so[..cut];
		let r1 = serde_avro_fast::from_single_object_slice::<AnyOwned>(p, &schema).is_ok();
		let r2 = serde_avro_fast::from_single_object_reader::<_, AnyOwned>(ChunkedBufRead::new(p, vec![1 + rng.below(3)]), &schema).is_ok();
		if r1 || r2 {
			ctx.violation("truncated-message-accepted", case_seed, describe(json!({"cut": cut, "slice_ok": r1, "reader_ok": r2})));
			return;
		}
		ctx.count("truncation_rejected");
	}
	// ---- a schema with a different canonical form must refuse the message
	if let Some((rs_b, label)) = pcf_changing_edit(&rs, &mut rng) {
		if crc64_avro(rs_b.pcf().as_bytes()) == crc64_avro(pcf.as_bytes()) {
			ctx.inconclusive += 1;
		} else if let (Ok(schema_b), _) = make_schema(&rs_b, pick_via(&mut rng), &mut rng) {
			let r1 = serde_avro_fast::from_single_object_slice::<AnyOwned>(&so, &schema_b).is_ok();
			let r2 = serde_avro_fast::from_single_object_reader::<_, AnyOwned>(ChunkedBufRead::new(&so, vec![1 + rng.below(9)]), &schema_b).is_ok();
			if r1 || r2 {
				ctx.violation(
					format!("message-of-different-canonical-form-accepted edit={label}"),
					case_seed,
					describe(json!({"schema_b": rs_b.spell(None).compact(), "pcf_b": rs_b.pcf(), "fingerprint_b_crate": hex(schema_b.rabin_fingerprint()), "slice_ok": r1, "reader_ok": r2})),
				);
				return;
			}
			ctx.count("different_pcf_rejected");
			ctx.count(&format!("edit:{label}"));
		}
	}
	// ---- a re-spelling with the same canonical form must accept it
	let (rs_c, label) = same_pcf_respelling(&rs, &mut rng);
	if rs_c.pcf() == pcf {
		if let (Ok(schema_c), _) = make_schema(&rs_c, SchemaVia::FancyText, &mut rng) {
			// the datum may legitimately decode differently under other logical types; only the
			// header check is judged: an error must not be the fingerprint/marker one
			let r = serde_avro_fast::from_single_object_slice::<AnyOwned>(&so, &schema_c).map(|_| ()).map_err(|e| e.to_string());
			match r {
				Err(e) if e.contains("fingerprint") || e.contains("C3 01") => {
					ctx.violation(
						format!("message-of-same-canonical-form-refused respelling={label}"),
						case_seed,
						describe(json!({"schema_c": rs_c.spell(None).compact(), "error": e})),
					);
					return;
				}
				_ => {
					ctx.count("same_pcf_accepted");
				}
			}
		}
	}
	ctx.distinct_bytes(&[&shape_hash(&rs).to_le_bytes(), &so]);
	ctx.sample(|| describe(json!({"message": hex(&so)})));
}
