//! Ordinary derived Rust data types used as (de)serialization targets (the "typed" half of C01)

use crate::gen::value::ValueGen;
use crate::io::{schedule, ChunkedBufRead};
use crate::rng::Rng;
use crate::run::Ctx;
use serde_avro_fast::{ser::SerializerConfig, Schema};
use serde_derive::{Deserialize, Serialize};
use serde_json::json;
use std::collections::BTreeMap;
use std::sync::OnceLock;

#[derive(Serialize, Deserialize, Debug, PartialEq, Clone, Copy)]
pub enum Suit {
	#[serde(rename = "SPADES")]
	Spades,
	#[serde(rename = "HEARTS")]
	Hearts,
	#[serde(rename = "Null")]
	NullSym,
}

#[derive(Serialize, Deserialize, Debug, PartialEq, Clone)]
pub struct Inner {
	pub x: i32,
	pub tags: Vec<String>,
}

#[derive(Serialize, Deserialize, Debug, PartialEq)]
pub struct Borrowing<'a> {
	pub id: i64,
	pub name: &'a str,
	#[serde(with = "serde_bytes")]
	pub blob: &'a [u8],
	pub ratio: f64,
	pub small: f32,
	pub flag: bool,
	pub maybe: Option<i32>,
	pub suit: Suit,
	pub inner: Inner,
	pub counts: BTreeMap<String, i64>,
	#[serde(with = "serde_bytes")]
	pub fx: [u8; 4],
	pub opt_inner: Option<Inner>,
}

const BORROWING_SCHEMA: &str = r#"{"type":"record","name":"t.Borrowing","fields":[
 {"name":"id","type":"long"},{"name":"name","type":"string"},{"name":"blob","type":"bytes"},
 {"name":"ratio","type":"double"},{"name":"small","type":"float"},{"name":"flag","type":"boolean"},
 {"name":"maybe","type":["null","int"]},
 {"name":"suit","type":{"type":"enum","name":"Suit","symbols":["SPADES","HEARTS","Null"]}},
 {"name":"inner","type":{"type":"record","name":"Inner","fields":[{"name":"x","type":"int"},{"name":"tags","type":{"type":"array","items":"string"}}]}},
 {"name":"counts","type":{"type":"map","values":"long"}},
 {"name":"fx","type":{"type":"fixed","name":"F4","size":4}},
 {"name":"opt_inner","type":["Inner","null"]}
]}"#;

#[derive(Serialize, Deserialize, Debug, PartialEq, Clone)]
pub enum Choice {
	Null,
	Int(i32),
	String(String),
	#[serde(rename = "t.Inner")]
	Inner(Inner),
	Array(Vec<i64>),
	#[serde(rename = "t.Suit")]
	Suit(Suit),
	Double(f64),
}
#[derive(Serialize, Deserialize, Debug, PartialEq, Clone)]
pub struct WithChoice {
	pub c: Choice,
	pub after: i64,
	pub list: Vec<Choice>,
}
const CHOICE_SCHEMA: &str = r#"{"type":"record","name":"t.WithChoice","fields":[
 {"name":"c","type":["null","int","string",
   {"type":"record","name":"Inner","fields":[{"name":"x","type":"int"},{"name":"tags","type":{"type":"array","items":"string"}}]},
   {"type":"array","items":"long"},
   {"type":"enum","name":"Suit","symbols":["SPADES","HEARTS","Null"]},
   "double"]},
 {"name":"after","type":"long"},
 {"name":"list","type":{"type":"array","items":["null","int","string","Inner",{"type":"array","items":"long"},"Suit","double"]}}
]}"#;

#[derive(Serialize, Deserialize, Debug, PartialEq, Clone)]
pub struct ListNode {
	pub v: i32,
	pub next: Option<Box<ListNode>>,
	pub kids: Vec<ListNode>,
}
const LIST_SCHEMA: &str = r#"{"type":"record","name":"ListNode","fields":[
 {"name":"v","type":"int"},{"name":"next","type":["null","ListNode"]},{"name":"kids","type":{"type":"array","items":"ListNode"}}]}"#;

/// fixed-length Rust sequences (tuples, arrays, tuple structs) over Avro arrays, each followed by more data
#[derive(Serialize, Deserialize, Debug, PartialEq, Clone)]
pub struct Pt(pub i32, pub i32);
#[derive(Serialize, Deserialize, Debug, PartialEq, Clone)]
pub struct Tuples {
	pub pair: (i32, i32),
	pub after_pair: i64,
	pub triple: [i64; 3],
	pub pt: Pt,
	pub mixed: (String, String),
	pub pairs: Vec<(i32, i32)>,
	pub last: String,
}
const TUPLES_SCHEMA: &str = r#"{"type":"record","name":"t.Tuples","fields":[
 {"name":"pair","type":{"type":"array","items":"int"}},{"name":"after_pair","type":"long"},
 {"name":"triple","type":{"type":"array","items":"long"}},
 {"name":"pt","type":{"type":"array","items":"int"}},
 {"name":"mixed","type":{"type":"array","items":"string"}},
 {"name":"pairs","type":{"type":"array","items":{"type":"array","items":"int"}}},
 {"name":"last","type":"string"}]}"#;
fn tuples_schema() -> &'static Schema {
	static S: OnceLock<Schema> = OnceLock::new();
	S.get_or_init(|| TUPLES_SCHEMA.parse().expect("fixture schema"))
}

fn schemas() -> &'static (Schema, Schema, Schema) {
	static S: OnceLock<(Schema, Schema, Schema)> = OnceLock::new();
	S.get_or_init(|| {
		(
			BORROWING_SCHEMA.parse().expect("fixture schema"),
			CHOICE_SCHEMA.parse().expect("fixture schema"),
			LIST_SCHEMA.parse().expect("fixture schema"),
		)
	})
}

fn gen_inner(rng: &mut Rng) -> Inner {
	Inner {
		x: ValueGen::interesting_i32(rng),
		tags: (0..rng.below(4)).map(|i| format!("t{i}é")).collect(),
	}
}
fn gen_suit(rng: &mut Rng) -> Suit {
	*rng.pick(&[Suit::Spades, Suit::Hearts, Suit::NullSym])
}
fn finite_f64(rng: &mut Rng) -> f64 {
	let f = f64::from_bits(ValueGen::interesting_f64(rng));
	if f.is_nan() {
		-0.0
	} else {
		f
	}
}
fn gen_choice(rng: &mut Rng) -> Choice {
	match rng.below(7) {
		0 => Choice::Null,
		1 => Choice::Int(ValueGen::interesting_i32(rng)),
		2 => Choice::String("Null".repeat(rng.below(3))),
		3 => Choice::Inner(gen_inner(rng)),
		4 => Choice::Array((0..rng.below(4)).map(|_| ValueGen::interesting_i64(rng)).collect()),
		5 => Choice::Suit(gen_suit(rng)),
		_ => Choice::Double(finite_f64(rng)),
	}
}
fn gen_list(rng: &mut Rng, depth: usize) -> ListNode {
	ListNode {
		v: ValueGen::interesting_i32(rng),
		next: if depth < 8 && rng.chance(2, 3) {
			Some(Box::new(gen_list(rng, depth + 1)))
		} else {
			None
		},
		kids: if depth < 3 {
			(0..rng.below(3)).map(|_| gen_list(rng, depth + 2)).collect()
		} else {
			vec![]
		},
	}
}

fn rt<T>(ctx: &mut Ctx, case_seed: u64, name: &str, schema: &Schema, v: &T, rng: &mut Rng) -> Option<Vec<u8>>
where
	T: serde::Serialize + serde::de::DeserializeOwned + PartialEq + std::fmt::Debug,
{
	let mut cfg = SerializerConfig::new(schema);
	let bytes = match serde_avro_fast::to_datum_vec(v, &mut cfg) {
		Ok(b) => b,
		Err(e) => {
			ctx.violation(
				format!("fixture={name} ser-err {}", crate::sut::err_sig(&e.to_string())),
				case_seed,
				json!({"value": format!("{v:?}"), "error": e.to_string()}),
			);
			return None;
		}
	};
	match serde_avro_fast::from_datum_slice::<T>(&bytes, schema) {
		Ok(back) if &back == v => {}
		other => {
			ctx.violation(
				format!("fixture={name} de-slice-mismatch"),
				case_seed,
				json!({"value": format!("{v:?}"), "got": format!("{other:?}")}),
			);
			return None;
		}
	}
	let sched = schedule(rng, bytes.len());
	let rd = ChunkedBufRead::new(&bytes, sched.clone());
	match serde_avro_fast::from_datum_reader::<_, T>(rd, schema) {
		Ok(back) if &back == v => {}
		other => {
			ctx.violation(
				format!("fixture={name} de-reader-mismatch"),
				case_seed,
				json!({"value": format!("{v:?}"), "got": format!("{other:?}"), "schedule": sched}),
			);
			return None;
		}
	}
	ctx.count("typed_fixture_roundtrips");
	ctx.distinct_bytes(&[name.as_bytes(), &bytes]);
	Some(bytes)
}

pub fn c01_fixture_case(ctx: &mut Ctx, case_seed: u64, rng: &mut Rng) {
	let (s_b, s_c, s_l) = schemas();
	match rng.below(4) {
		3 => {
			let v = Tuples {
				pair: (ValueGen::interesting_i32(rng), ValueGen::interesting_i32(rng)),
				after_pair: ValueGen::interesting_i64(rng),
				triple: [ValueGen::interesting_i64(rng), ValueGen::interesting_i64(rng), ValueGen::interesting_i64(rng)],
				pt: Pt(ValueGen::interesting_i32(rng), rng.below(5) as i32),
				mixed: (format!("a{}", rng.below(100)), "é".repeat(rng.below(4))),
				pairs: (0..rng.below(4)).map(|_| (ValueGen::interesting_i32(rng), rng.below(9) as i32)).collect(),
				last: format!("end{}", rng.below(1000)),
			};
			if rt(ctx, case_seed, "Tuples", tuples_schema(), &v, rng).is_some() {
				ctx.count("typed_fixed_length_sequences");
			}
		}
		0 => {
			let name: String = ValueGen::new(&crate::refavro::schema::RSchema { nodes: vec![] }).string(rng);
			let nblob = rng.below(20);
			let blob = rng.bytes(nblob);
			let mut counts = BTreeMap::new();
			for i in 0..rng.below(4) {
				counts.insert(format!("k{i}"), ValueGen::interesting_i64(rng));
			}
			let v = Borrowing {
				id: ValueGen::interesting_i64(rng),
				name: &name,
				blob: &blob,
				ratio: finite_f64(rng),
				small: {
					let f = f32::from_bits(ValueGen::interesting_f32(rng));
					if f.is_nan() {
						1.5
					} else {
						f
					}
				},
				flag: rng.coin(),
				maybe: if rng.coin() { Some(ValueGen::interesting_i32(rng)) } else { None },
				suit: gen_suit(rng),
				inner: gen_inner(rng),
				counts,
				fx: rng.bytes(4).try_into().unwrap(),
				opt_inner: if rng.coin() { Some(gen_inner(rng)) } else { None },
			};
			let mut cfg = SerializerConfig::new(s_b);
			let bytes = match serde_avro_fast::to_datum_vec(&v, &mut cfg) {
				Ok(b) => b,
				Err(e) => {
					ctx.violation(
						format!("fixture=Borrowing ser-err {}", crate::sut::err_sig(&e.to_string())),
						case_seed,
						json!({"value": format!("{v:?}"), "error": e.to_string()}),
					);
					return;
				}
			};
			match serde_avro_fast::from_datum_slice::<Borrowing>(&bytes, s_b) {
				Ok(back) if back == v => {
					// borrowed fields must point into the input slice
					let lo = bytes.as_ptr() as usize;
					let hi = lo + bytes.len();
					let inside = |p: *const u8, n: usize| n == 0 || (p as usize >= lo && p as usize + n <= hi);
					if !inside(back.name.as_ptr(), back.name.len()) || !inside(back.blob.as_ptr(), back.blob.len()) {
						ctx.violation("fixture=Borrowing borrowed-data-outside-input", case_seed, json!({"value": format!("{v:?}")}));
						return;
					}
					ctx.count("typed_fixture_roundtrips");
					ctx.count("typed_borrowed_checked");
					ctx.distinct_bytes(&[b"Borrowing", &bytes]);
				}
				other => {
					ctx.violation(
						"fixture=Borrowing de-slice-mismatch",
						case_seed,
						json!({"value": format!("{v:?}"), "got": format!("{other:?}")}),
					);
				}
			}
		}
		1 => {
			let v = WithChoice {
				c: gen_choice(rng),
				after: ValueGen::interesting_i64(rng),
				list: (0..rng.below(5)).map(|_| gen_choice(rng)).collect(),
			};
			rt(ctx, case_seed, "WithChoice", s_c, &v, rng);
		}
		_ => {
			let v = gen_list(rng, 0);
			rt(ctx, case_seed, "ListNode", s_l, &v, rng);
		}
	}
}
