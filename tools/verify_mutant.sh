#!/bin/bash
# usage: verify_mutant.sh <ID> [worktree]   -- confirms a seeded change in its scratch worktree, stores it in /verif/seeded/<ID>/, removes the worktree
set -u
ID=$1; WT=${2:-/tmp/mut/$ID}; OUT=/verif/seeded/$ID
export CARGO_TARGET_DIR=$WT/target CARGO_NET_OFFLINE=true
mkdir -p $OUT
cd $WT || exit 2
python3 - "$WT" > $OUT/.demo_info <<'PY'
import json,sys
m=json.load(open(sys.argv[1]+'/out/meta.json'))
print(m.get('demo_path','')); print(m.get('demo_cmd',''))
PY
DEMO_PATH=$(sed -n 1p $OUT/.demo_info); DEMO_CMD=$(sed -n 2p $OUT/.demo_info); rm -f $OUT/.demo_info
DEMO_FILE=$(ls $WT/out/ | grep -v -E 'patch.diff|meta.json' | head -1)
# normalise demo path to be relative to worktree
REL=${DEMO_PATH#$WT/}
rm -rf /tmp/mut/.out_$ID; cp -r $WT/out /tmp/mut/.out_$ID; git -C $WT checkout -q -- . ; git -C $WT clean -fdq -e target -e out -e PROPERTY.md
# state A: unchanged + demo
mkdir -p $(dirname $WT/$REL); cp $WT/out/$DEMO_FILE $WT/$REL
( eval "$DEMO_CMD" ) > $OUT/demo_without.log 2>&1; A=$?
# state B: changed + demo
git -C $WT apply out/patch.diff || { echo "PATCH DOES NOT APPLY"; exit 3; }
( eval "$DEMO_CMD" ) > $OUT/demo_with.log 2>&1; B=$?
# suite with change (demo moved aside)
rm -f $WT/$REL
( cd $WT && cargo test --workspace --no-fail-fast --offline ) > $OUT/suite_with.log 2>&1; S=$?
( cd $WT && cargo build -p serde_avro_fast --features deflate,bzip2,snappy,xz,zstandard --offline ) >> $OUT/suite_with.log 2>&1; F=$?
NPASS=$(grep -E '^test result: ok' $OUT/suite_with.log | sed -E 's/.* ([0-9]+) passed.*/\1/' | paste -sd+ | bc)
echo "ID=$ID demo_without_exit=$A demo_with_exit=$B suite_exit=$S features_build_exit=$F tests_passed=$NPASS"
cp $WT/out/patch.diff $OUT/patch.diff; cp $WT/out/$DEMO_FILE $OUT/; 
python3 - "$WT" "$OUT" "$A" "$B" "$S" "$F" "$NPASS" <<'PY'
import json,sys
wt,out,a,b,s,f,n=sys.argv[1:]
m=json.load(open(wt+'/out/meta.json'))
m['confirmed_by_me']={'demo_passes_without_change':a=='0','demo_fails_with_change':b!='0','suite_passes_with_change':s=='0','all_codec_features_build':f=='0','suite_tests_passed':n,
  'ran':['demo on unchanged worktree','git apply patch.diff; demo','cargo test --workspace --no-fail-fast --offline (demo moved aside)','cargo build -p serde_avro_fast --features deflate,bzip2,snappy,xz,zstandard']}
json.dump(m,open(out+'/meta.json','w'),indent=1)
PY
tail -5 $OUT/demo_with.log | cut -c1-300 > $OUT/demo_with.tail; rm -f $OUT/demo_without.log $OUT/suite_with.log; mv $OUT/demo_with.tail $OUT/demo_with_change.log.tail; rm -f $OUT/demo_with.log
if [ "$A" = 0 ] && [ "$B" != 0 ] && [ "$S" = 0 ] && [ "$F" = 0 ]; then echo CONFIRMED; cd /; git -C /repo worktree remove --force $WT; else echo "NOT CONFIRMED (worktree kept)"; fi
