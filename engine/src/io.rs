//! Instrumented I/O boundary: a BufRead that delivers bytes according to a refill schedule and
//! sinks that accept bytes according to a write schedule, with fault injection.

use std::io::{self, BufRead, IoSlice, Read, Write};

#[derive(Clone, Debug)]
pub struct ChunkedBufRead<'a> {
	pub data: &'a [u8],
	pub pos: usize,
	chunk_end: usize,
	pub schedule: Vec<usize>,
	sched_idx: usize,
	pub fill_calls: u64,
	pub consume_calls: u64,
	pub read_calls: u64,
	/// inject an error at this (0-based) fill_buf/read call index
	pub fail_at_call: Option<u64>,
	pub fail_kind: io::ErrorKind,
	pub contract_broken: bool,
}

impl<'a> ChunkedBufRead<'a> {
	pub fn new(data: &'a [u8], schedule: Vec<usize>) -> Self {
		assert!(!schedule.is_empty() && schedule.iter().all(|&x| x > 0));
		ChunkedBufRead {
			data,
			pos: 0,
			chunk_end: 0,
			schedule,
			sched_idx: 0,
			fill_calls: 0,
			consume_calls: 0,
			read_calls: 0,
			fail_at_call: None,
			fail_kind: io::ErrorKind::Other,
			contract_broken: false,
		}
	}
	pub fn remaining(&self) -> &'a [u8] {
		&self.data[self.pos..]
	}
	fn calls(&self) -> u64 {
		self.fill_calls + self.read_calls
	}
	fn maybe_fail(&mut self) -> io::Result<()> {
		if let Some(n) = self.fail_at_call {
			if self.calls() == n {
				// count the failing call so that a retry proceeds
				return Err(io::Error::new(self.fail_kind, "injected read fault"));
			}
		}
		Ok(())
	}
	fn ensure_chunk(&mut self) {
		if self.pos >= self.chunk_end {
			let sz = self.schedule[self.sched_idx % self.schedule.len()];
			self.sched_idx += 1;
			self.chunk_end = (self.pos + sz).min(self.data.len());
		}
	}
}

impl<'a> Read for ChunkedBufRead<'a> {
	fn read(&mut self, buf: &mut [u8]) -> io::Result<usize> {
		let r = self.maybe_fail();
		self.read_calls += 1;
		r?;
		self.ensure_chunk();
		let avail = &self.data[self.pos..self.chunk_end];
		let n = avail.len().min(buf.len());
		buf[..n].copy_from_slice(&avail[..n]);
		self.pos += n;
		Ok(n)
	}
}
impl<'a> BufRead for ChunkedBufRead<'a> {
	fn fill_buf(&mut self) -> io::Result<&[u8]> {
		let r = self.maybe_fail();
		self.fill_calls += 1;
		r?;
		self.ensure_chunk();
		Ok(&self.data[self.pos..self.chunk_end])
	}
	fn consume(&mut self, amt: usize) {
		self.consume_calls += 1;
		if amt > self.chunk_end.saturating_sub(self.pos) {
			// BufRead contract: amt must be <= the length of the buffer returned by fill_buf
			self.contract_broken = true;
			self.pos = (self.pos + amt).min(self.data.len());
			return;
		}
		self.pos += amt;
	}
}

/// Build a refill schedule
pub fn schedule(rng: &mut crate::rng::Rng, len: usize) -> Vec<usize> {
	match rng.below(6) {
		0 => vec![1],
		1 => vec![1 + rng.below(8)],
		2 => vec![len.max(1)],
		3 => vec![len.saturating_sub(1).max(1)],
		_ => {
			let n = 1 + rng.below(12);
			(0..n)
				.map(|_| match rng.below(4) {
					0 => 1,
					1 => 1 + rng.below(4),
					2 => 1 + rng.below(16),
					_ => 1 + rng.below(len.max(1)),
				})
				.collect()
		}
	}
}

// ------------------------------------------------------------------ sinks

#[derive(Clone, Copy, Debug, PartialEq, Eq)]
pub enum Fault {
	None,
	Interrupted,
	Hard,
	Zero,
}

/// A sink that accepts at most `schedule[i]` bytes on the i-th accepting call and can inject a
/// fault at a given call index (one-shot).
pub struct ScheduledSink {
	pub out: Vec<u8>,
	pub schedule: Vec<usize>,
	idx: usize,
	pub calls: u64,
	pub fault_at: Option<u64>,
	pub fault: Fault,
	/// implement write_vectored natively (spanning slices) instead of std's default
	pub native_vectored: bool,
	pub vectored_calls: u64,
	pub spanning_writes: u64,
	pub faults_fired: u64,
}

impl ScheduledSink {
	pub fn new(schedule: Vec<usize>, native_vectored: bool) -> Self {
		assert!(!schedule.is_empty() && schedule.iter().all(|&x| x > 0));
		ScheduledSink {
			out: Vec::new(),
			schedule,
			idx: 0,
			calls: 0,
			fault_at: None,
			fault: Fault::None,
			native_vectored,
			vectored_calls: 0,
			spanning_writes: 0,
			faults_fired: 0,
		}
	}
	fn pre(&mut self) -> Option<io::Result<usize>> {
		let c = self.calls;
		self.calls += 1;
		if self.fault_at == Some(c) {
			self.faults_fired += 1;
			return match self.fault {
				Fault::None => None,
				Fault::Interrupted => Some(Err(io::Error::new(io::ErrorKind::Interrupted, "injected EINTR"))),
				Fault::Hard => Some(Err(io::Error::new(io::ErrorKind::Other, "injected sink error"))),
				Fault::Zero => Some(Ok(0)),
			};
		}
		None
	}
	fn quota(&mut self) -> usize {
		let q = self.schedule[self.idx % self.schedule.len()];
		self.idx += 1;
		q
	}
}

impl Write for ScheduledSink {
	fn write(&mut self, buf: &[u8]) -> io::Result<usize> {
		if buf.is_empty() {
			return Ok(0);
		}
		if let Some(r) = self.pre() {
			return r;
		}
		let n = self.quota().min(buf.len());
		self.out.extend_from_slice(&buf[..n]);
		Ok(n)
	}
	fn write_vectored(&mut self, bufs: &[IoSlice<'_>]) -> io::Result<usize> {
		self.vectored_calls += 1;
		if !self.native_vectored {
			// std's default behaviour: first non-empty slice only
			let buf = bufs.iter().find(|b| !b.is_empty()).map_or(&[][..], |b| &**b);
			return self.write(buf);
		}
		let total: usize = bufs.iter().map(|b| b.len()).sum();
		if total == 0 {
			return Ok(0);
		}
		if let Some(r) = self.pre() {
			return r;
		}
		let mut left = self.quota().min(total);
		let n = left;
		let mut touched = 0;
		for b in bufs {
			if left == 0 {
				break;
			}
			let k = left.min(b.len());
			if k > 0 {
				touched += 1;
			}
			self.out.extend_from_slice(&b[..k]);
			left -= k;
		}
		if touched > 1 {
			self.spanning_writes += 1;
		}
		Ok(n)
	}
	fn flush(&mut self) -> io::Result<()> {
		Ok(())
	}
}

/// Sink failing with a hard error once `limit` bytes have been accepted
pub struct FailAfter {
	pub out: Vec<u8>,
	pub limit: usize,
}
impl Write for FailAfter {
	fn write(&mut self, buf: &[u8]) -> io::Result<usize> {
		if buf.is_empty() {
			return Ok(0);
		}
		let room = self.limit.saturating_sub(self.out.len());
		if room == 0 {
			return Err(io::Error::new(io::ErrorKind::Other, "injected sink error"));
		}
		let n = room.min(buf.len());
		self.out.extend_from_slice(&buf[..n]);
		Ok(n)
	}
	fn flush(&mut self) -> io::Result<()> {
		Ok(())
	}
}

/// Shared sink that stays observable after the writer is dropped; with a non-empty schedule it
/// accepts at most `schedule[i]` bytes on its i-th call (short writes, never an error)
#[derive(Clone, Default)]
pub struct SharedSink {
	pub buf: std::rc::Rc<std::cell::RefCell<Vec<u8>>>,
	pub schedule: Vec<usize>,
	pub idx: usize,
	pub native_vectored: bool,
	/// write-call indices (write and write_vectored counted together) at which the sink refuses: a hard error
	/// without accepting a single byte; later calls work again
	pub refuse_at: Vec<u64>,
	pub calls: u64,
	pub refusals: std::rc::Rc<std::cell::Cell<u64>>,
}
impl SharedSink {
	pub fn scheduled(schedule: Vec<usize>, native_vectored: bool) -> Self {
		SharedSink {
			buf: Default::default(),
			schedule,
			idx: 0,
			native_vectored,
			..Default::default()
		}
	}
	/// accepts everything it is offered in one call (also across slices), except at the given call indices
	pub fn refusing(refuse_at: Vec<u64>) -> Self {
		SharedSink {
			native_vectored: true,
			refuse_at,
			..Default::default()
		}
	}
	fn refuse(&mut self) -> bool {
		let c = self.calls;
		self.calls += 1;
		if self.refuse_at.contains(&c) {
			self.refusals.set(self.refusals.get() + 1);
			return true;
		}
		false
	}
	fn quota(&mut self) -> usize {
		if self.schedule.is_empty() {
			return usize::MAX;
		}
		let q = self.schedule[self.idx % self.schedule.len()];
		self.idx += 1;
		q.max(1)
	}
}
impl Write for SharedSink {
	fn write(&mut self, buf: &[u8]) -> io::Result<usize> {
		if buf.is_empty() {
			return Ok(0);
		}
		if self.refuse() {
			return Err(io::Error::new(io::ErrorKind::Other, "injected sink refusal"));
		}
		let n = self.quota().min(buf.len());
		self.buf.borrow_mut().extend_from_slice(&buf[..n]);
		Ok(n)
	}
	fn write_vectored(&mut self, bufs: &[IoSlice<'_>]) -> io::Result<usize> {
		if !self.native_vectored {
			let buf = bufs.iter().find(|b| !b.is_empty()).map_or(&[][..], |b| &**b);
			return self.write(buf);
		}
		let total: usize = bufs.iter().map(|b| b.len()).sum();
		if total == 0 {
			return Ok(0);
		}
		if self.refuse() {
			return Err(io::Error::new(io::ErrorKind::Other, "injected sink refusal"));
		}
		let n = self.quota().min(total);
		let mut left = n;
		let mut out = self.buf.borrow_mut();
		for b in bufs {
			if left == 0 {
				break;
			}
			let k = left.min(b.len());
			out.extend_from_slice(&b[..k]);
			left -= k;
		}
		Ok(n)
	}
	fn flush(&mut self) -> io::Result<()> {
		Ok(())
	}
}
