//! Thin wrappers around the system under test (serde_avro_fast public API only).

use crate::bridge::collect::{AnySeed, Collect, Mode, Stats, U};
use crate::bridge::present::{Pres, Present};
use crate::io::ChunkedBufRead;
use crate::refavro::schema::RSchema;
use crate::refavro::value::Val;
use crate::rng::Rng;
use serde::de::DeserializeSeed;
use serde_avro_fast::{de, ser, Schema};
use std::cell::RefCell;
use std::io::BufRead;

#[derive(Clone, Copy, Debug, PartialEq, Eq)]
pub enum SchemaVia {
	PlainText,
	FancyText,
	Builder,
	/// an editable schema that already answered a fingerprint query for something else, then had its nodes replaced in place
	EditedInPlace,
}

/// Build the crate's Schema for a reference schema; returns the schema and the text used (if any)
pub fn make_schema(rs: &RSchema, via: SchemaVia, rng: &mut Rng) -> (Result<Schema, String>, Option<String>) {
	match via {
		SchemaVia::PlainText => {
			let txt = rs.spell(None).compact();
			(txt.parse::<Schema>().map_err(|e| e.to_string()), Some(txt))
		}
		SchemaVia::FancyText => {
			let j = rs.spell(Some(rng));
			let txt = j.styled(rng);
			(txt.parse::<Schema>().map_err(|e| e.to_string()), Some(txt))
		}
		SchemaVia::Builder => (rs.to_schema_mut().freeze().map_err(|e| e.to_string()), None),
		SchemaVia::EditedInPlace => {
			let start = *rng.pick(&["\"long\"", "{\"type\":\"record\",\"name\":\"Before\",\"fields\":[{\"name\":\"a\",\"type\":\"int\"}]}", "[\"null\",\"string\"]"]);
			let mut sm: serde_avro_fast::schema::SchemaMut = start.parse().expect("harness start schema");
			if rng.chance(3, 4) {
				let _ = sm.canonical_form_rabin_fingerprint();
			}
			*sm.nodes_mut() = rs.to_schema_mut().nodes().to_vec();
			(sm.freeze().map_err(|e| e.to_string()), None)
		}
	}
}

pub fn pick_via(rng: &mut Rng) -> SchemaVia {
	*rng.pick(&[SchemaVia::PlainText, SchemaVia::FancyText, SchemaVia::FancyText, SchemaVia::Builder, SchemaVia::Builder, SchemaVia::EditedInPlace])
}

pub fn ser_datum(schema: &Schema, rs: &RSchema, v: &Val, p: &Pres) -> Result<Vec<u8>, String> {
	let mut cfg = ser::SerializerConfig::new(schema);
	if p.bytes_as_seq {
		cfg.allow_slow_sequence_to_bytes();
	}
	serde_avro_fast::to_datum_vec(&Present::new(rs, v, p), &mut cfg).map_err(|e| e.to_string())
}

/// Same value, same presentation policy, but the datum is streamed into a sink that accepts only part of each write
/// (with or without its own write_vectored): the bytes that reach the sink must be those a Vec receives
pub fn ser_datum_sink(schema: &Schema, rs: &RSchema, v: &Val, p: &Pres, schedule: Vec<usize>, native_vectored: bool) -> Result<Vec<u8>, String> {
	let mut cfg = ser::SerializerConfig::new(schema);
	if p.bytes_as_seq {
		cfg.allow_slow_sequence_to_bytes();
	}
	let sink = crate::io::ScheduledSink::new(schedule, native_vectored);
	serde_avro_fast::to_datum(&Present::new(rs, v, p), sink, &mut cfg).map(|s| s.out).map_err(|e| e.to_string())
}

pub fn pick_datum_sink_schedule(rng: &mut Rng) -> (Vec<usize>, bool) {
	let sched = match rng.below(4) {
		0 => vec![1],
		1 => vec![*rng.pick(&[2usize, 3, 5, 63, 64, 65])],
		_ => (0..1 + rng.below(6)).map(|_| 1 + rng.below(24)).collect(),
	};
	(sched, rng.coin())
}

pub struct DeOut<T> {
	pub res: Result<T, String>,
	/// bytes consumed (meaningful on success)
	pub consumed: usize,
	pub stats: Stats,
	pub reader_calls: (u64, u64, u64),
	pub contract_broken: bool,
}

#[derive(Clone, Copy, Debug, Default)]
pub struct Limits {
	pub allowed_depth: Option<usize>,
	pub max_seq_size: Option<usize>,
	pub max_alloc_size: Option<usize>,
}

fn config<'s>(schema: &'s Schema, lim: &Limits) -> de::DeserializerConfig<'s> {
	let mut c = de::DeserializerConfig::new(schema);
	if let Some(d) = lim.allowed_depth {
		c.allowed_depth = d;
	}
	if let Some(m) = lim.max_seq_size {
		c.max_seq_size = m;
	}
	c
}

pub fn de_slice_seed<'de, S: DeserializeSeed<'de>>(
	schema: &Schema,
	bytes: &'de [u8],
	lim: &Limits,
	seed: S,
) -> (Result<S::Value, String>, usize) {
	let mut st = de::DeserializerState::with_config(de::read::SliceRead::new(bytes), config(schema, lim));
	let r = seed.deserialize(st.deserializer()).map_err(|e| e.to_string());
	let mut rd = st.into_reader();
	let left = rd.fill_buf().map(|b| b.len()).unwrap_or(0);
	(r, bytes.len() - left)
}

pub fn de_reader_seed<'a, S: for<'de> DeserializeSeed<'de, Value = T>, T>(
	schema: &Schema,
	reader: &mut ChunkedBufRead<'a>,
	lim: &Limits,
	seed: S,
) -> Result<T, String> {
	let mut rr = de::read::ReaderRead::new(&mut *reader);
	if let Some(m) = lim.max_alloc_size {
		rr.max_alloc_size = m;
	}
	let mut st = de::DeserializerState::with_config(rr, config(schema, lim));
	seed.deserialize(st.deserializer()).map_err(|e| e.to_string())
}

pub fn de_slice_val(schema: &Schema, rs: &RSchema, bytes: &[u8], lim: &Limits, mo: &ModeOwned) -> DeOut<Val> {
	let stats = RefCell::new(Stats {
		input_range: (bytes.as_ptr() as usize, bytes.len()),
		..Default::default()
	});
	let m = mo.as_mode(&stats);
	let (res, consumed) = de_slice_seed(schema, bytes, lim, Collect::root(rs, &m));
	let st_snapshot = stats.borrow().clone();
	DeOut {
		res,
		consumed,
		stats: st_snapshot,
		reader_calls: (0, 0, 0),
		contract_broken: false,
	}
}

pub fn de_reader_val(
	schema: &Schema,
	rs: &RSchema,
	bytes: &[u8],
	sched: Vec<usize>,
	lim: &Limits,
	mo: &ModeOwned,
) -> DeOut<Val> {
	let stats = RefCell::new(Stats::default());
	let m = mo.as_mode(&stats);
	let mut rd = ChunkedBufRead::new(bytes, sched);
	let res = de_reader_seed(schema, &mut rd, lim, Collect::root(rs, &m));
	let st_snapshot = stats.borrow().clone();
	DeOut {
		res,
		consumed: rd.pos,
		stats: st_snapshot,
		reader_calls: (rd.fill_calls, rd.consume_calls, rd.read_calls),
		contract_broken: rd.contract_broken,
	}
}

pub fn de_slice_any(schema: &Schema, bytes: &[u8], lim: &Limits) -> DeOut<U> {
	let stats = RefCell::new(Stats::default());
	let (res, consumed) = de_slice_seed(schema, bytes, lim, AnySeed { stats: &stats, depth: 0 });
	let st_snapshot = stats.borrow().clone();
	DeOut {
		res,
		consumed,
		stats: st_snapshot,
		reader_calls: (0, 0, 0),
		contract_broken: false,
	}
}
pub fn de_reader_any(schema: &Schema, bytes: &[u8], sched: Vec<usize>, lim: &Limits) -> DeOut<U> {
	let stats = RefCell::new(Stats::default());
	let mut rd = ChunkedBufRead::new(bytes, sched);
	let res = de_reader_seed(schema, &mut rd, lim, AnySeed { stats: &stats, depth: 0 });
	let st_snapshot = stats.borrow().clone();
	DeOut {
		res,
		consumed: rd.pos,
		stats: st_snapshot,
		reader_calls: (rd.fill_calls, rd.consume_calls, rd.read_calls),
		contract_broken: rd.contract_broken,
	}
}

/// Owned version of `Mode` without the stats pointer (so that it can be built before the stats cell)
#[derive(Clone, Debug)]
pub struct ModeOwned {
	pub union_via: crate::bridge::collect::UnionVia,
	pub enum_via: crate::bridge::collect::EnumVia,
	pub duration_via: u8,
	pub owned_hints: bool,
	pub ignore: Option<std::collections::HashSet<usize>>,
	pub unit_variant_unions: Option<std::collections::HashSet<usize>>,
}
impl ModeOwned {
	pub fn default_typed() -> Self {
		ModeOwned {
			union_via: crate::bridge::collect::UnionVia::Enum,
			enum_via: crate::bridge::collect::EnumVia::Str,
			duration_via: 0,
			owned_hints: false,
			ignore: None,
			unit_variant_unions: None,
		}
	}
	pub fn random(rng: &mut Rng) -> Self {
		use crate::bridge::collect::{EnumVia, UnionVia};
		ModeOwned {
			union_via: *rng.pick(&[UnionVia::Enum, UnionVia::Enum, UnionVia::OptionWhenNullable, UnionVia::OptionWhenNullable, UnionVia::OptionAlways]),
			enum_via: *rng.pick(&[EnumVia::Str, EnumVia::U64, EnumVia::EnumIdentifier]),
			duration_via: rng.below(3) as u8,
			owned_hints: rng.coin(),
			ignore: None,
			unit_variant_unions: None,
		}
	}
	pub fn as_mode<'a>(&'a self, stats: &'a RefCell<Stats>) -> Mode<'a> {
		Mode {
			union_via: self.union_via,
			enum_via: self.enum_via,
			duration_via: self.duration_via,
			owned_hints: self.owned_hints,
			ignore: self.ignore.as_ref(),
			unit_variant_unions: self.unit_variant_unions.as_ref(),
			stats,
		}
	}
	pub fn describe(&self) -> String {
		format!(
			"union_via={:?} enum_via={:?} duration_via={} owned={} ignore={:?} unit_unions={:?}",
			self.union_via, self.enum_via, self.duration_via, self.owned_hints, self.ignore, self.unit_variant_unions
		)
	}
}

/// normalise an error message into a short, stable signature fragment
pub fn err_sig(e: &str) -> String {
	let s: String = e
		.chars()
		.map(|c| if c.is_ascii_digit() { '#' } else { c })
		.take(48)
		.collect();
	s.replace(' ', "_")
}
