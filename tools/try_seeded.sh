#!/bin/bash
# usage: try_seeded.sh <seeded-id> <check-id>...   applies /verif/seeded/<id>/patch.diff to /repo, runs the quick checks, restores /repo
ID=$1; shift
cd /repo && git diff --quiet || { echo "/repo has uncommitted changes"; exit 2; }
git -C /repo apply /verif/seeded/$ID/patch.diff || { echo "patch does not apply"; git -C /repo reset -q --hard HEAD; exit 3; }
for C in "$@"; do
  LOG=$(mktemp)
  /verif/check $C quick > $LOG 2>&1; RC=$?
  NV=$(grep -c "^VIOLATION" $LOG)
  echo "--- seeded $ID vs check $C: exit=$RC violation_lines=$NV $( [ $RC = 1 ] && [ $NV -gt 0 ] && echo CAUGHT || echo MISSED )"
  python3 - "$C" <<'PY'
import json,sys
try:
    e=json.load(open(f'/verif/evidence/{sys.argv[1]}.json'))
    sigs={k[len('violation:'):]:v for k,v in e.get('coverage',{}).get('counters',{}).items() if k.startswith('violation:')}
    for s,n in sorted(sigs.items(), key=lambda x:-x[1])[:6]:
        print(f"      {n:4d} {s[:200]}")
except Exception as ex:
    print("      (no evidence:", ex, ")")
PY
  grep -E "^  signature:" $LOG | sort | uniq -c | sort -rn | head -4
  grep -E "HARNESS|KNOWN-FINDING" $LOG | cut -c1-160 | sort | uniq -c | head -4
  rm -f $LOG
done
git -C /repo reset -q --hard HEAD; git -C /repo status --short | head
