pub mod c01;
pub mod c02;
pub mod fixtures;

use crate::run::PropSpec;

pub const ALL: &[&PropSpec] = &[&c01::SPEC, &c02::SPEC];
