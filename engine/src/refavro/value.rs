//! Reference value model + binary encoder (with layout variants) + decoder, from the spec.

use super::schema::{Eff, Id, Kind, RSchema};
use crate::rng::Rng;

#[derive(Clone, Debug, PartialEq)]
pub enum Val {
	Null,
	Bool(bool),
	Int(i32),
	Long(i64),
	/// bit pattern
	Float(u32),
	/// bit pattern
	Double(u64),
	Bytes(Vec<u8>),
	Str(String),
	Fixed(Vec<u8>),
	Enum(usize),
	Array(Vec<Val>),
	Map(Vec<(String, Val)>),
	Union(usize, Box<Val>),
	Record(Vec<Val>),
	/// unscaled value; scale comes from the schema
	Decimal(i128),
	/// unscaled, scale
	BigDecimal(i128, u32),
	/// months, days, milliseconds
	Duration(u32, u32, u32),
}

impl Val {
	pub fn to_json(&self) -> serde_json::Value {
		use serde_json::json;
		match self {
			Val::Null => json!(null),
			Val::Bool(b) => json!(b),
			Val::Int(i) => json!({"int": i}),
			Val::Long(i) => json!({"long": i}),
			Val::Float(b) => json!({"f32bits": format!("{b:08x}")}),
			Val::Double(b) => json!({"f64bits": format!("{b:016x}")}),
			Val::Bytes(b) => json!({"bytes": hex(b)}),
			Val::Str(s) => {
				if s.len() > 64 {
					json!({"str_len": s.len(), "head": s.chars().take(16).collect::<String>()})
				} else {
					json!(s)
				}
			}
			Val::Fixed(b) => json!({"fixed": hex(b)}),
			Val::Enum(i) => json!({"enum": i}),
			Val::Array(v) => {
				if v.len() > 8 {
					json!({"array_len": v.len(), "head": v.iter().take(3).map(|x| x.to_json()).collect::<Vec<_>>()})
				} else {
					json!(v.iter().map(|x| x.to_json()).collect::<Vec<_>>())
				}
			}
			Val::Map(v) => {
				if v.len() > 8 {
					json!({"map_len": v.len()})
				} else {
					json!({"map": v.iter().map(|(k, x)| json!([k, x.to_json()])).collect::<Vec<_>>()})
				}
			}
			Val::Union(i, v) => json!({"branch": i, "v": v.to_json()}),
			Val::Record(v) => json!({"rec": v.iter().map(|x| x.to_json()).collect::<Vec<_>>()}),
			Val::Decimal(u) => json!({"dec": u.to_string()}),
			Val::BigDecimal(u, s) => json!({"bigdec": u.to_string(), "scale": s}),
			Val::Duration(a, b, c) => json!({"dur": [a, b, c]}),
		}
	}
	/// rough size used for budget decisions
	pub fn weight(&self) -> usize {
		match self {
			Val::Bytes(b) | Val::Fixed(b) => 1 + b.len(),
			Val::Str(s) => 1 + s.len(),
			Val::Array(v) | Val::Record(v) => 1 + v.iter().map(|x| x.weight()).sum::<usize>(),
			Val::Map(v) => 1 + v.iter().map(|(k, x)| k.len() + x.weight()).sum::<usize>(),
			Val::Union(_, v) => 1 + v.weight(),
			_ => 1,
		}
	}
}

pub fn hex(b: &[u8]) -> String {
	let mut s = String::with_capacity(b.len() * 2);
	for x in b.iter().take(256) {
		s.push_str(&format!("{x:02x}"));
	}
	if b.len() > 256 {
		s.push_str(&format!("..(+{})", b.len() - 256));
	}
	s
}
pub fn hex_full(b: &[u8]) -> String {
	let mut s = String::with_capacity(b.len() * 2);
	for x in b {
		s.push_str(&format!("{x:02x}"));
	}
	s
}
pub fn unhex(s: &str) -> Vec<u8> {
	(0..s.len() / 2)
		.map(|i| u8::from_str_radix(&s[2 * i..2 * i + 2], 16).unwrap_or(0))
		.collect()
}

// ------------------------------------------------------------------ primitives

pub fn zigzag(n: i64) -> u64 {
	((n << 1) ^ (n >> 63)) as u64
}
pub fn unzigzag(u: u64) -> i64 {
	((u >> 1) as i64) ^ -((u & 1) as i64)
}
pub fn put_varint(mut u: u64, out: &mut Vec<u8>) {
	loop {
		let b = (u & 0x7f) as u8;
		u >>= 7;
		if u == 0 {
			out.push(b);
			break;
		}
		out.push(b | 0x80);
	}
}
pub fn put_long(n: i64, out: &mut Vec<u8>) {
	put_varint(zigzag(n), out)
}
/// Over-long (padded) encoding of the same number using exactly `len` bytes (len <= 10)
pub fn put_long_padded(n: i64, len: usize, out: &mut Vec<u8>) {
	let mut u = zigzag(n);
	for i in 0..len {
		let b = (u & 0x7f) as u8;
		u >>= 7;
		if i + 1 == len {
			out.push(b);
		} else {
			out.push(b | 0x80);
		}
	}
}

/// minimal two's complement big-endian bytes of an i128 (at least one byte)
pub fn min_twos_complement(v: i128) -> Vec<u8> {
	let b = v.to_be_bytes();
	let mut start = 0;
	while start < 15 {
		let cur = b[start];
		let next_hi = b[start + 1] & 0x80;
		if (cur == 0x00 && next_hi == 0) || (cur == 0xFF && next_hi != 0) {
			start += 1;
		} else {
			break;
		}
	}
	b[start..].to_vec()
}

pub fn sign_extend(bytes: &[u8], len: usize) -> Vec<u8> {
	assert!(len >= bytes.len());
	let fill = if bytes.first().map_or(false, |b| b & 0x80 != 0) {
		0xFF
	} else {
		0x00
	};
	let mut v = vec![fill; len - bytes.len()];
	v.extend_from_slice(bytes);
	v
}

pub fn from_twos_complement(bytes: &[u8]) -> Option<i128> {
	if bytes.len() > 16 {
		// still fine if it is only sign extension
		let ext = sign_extend(&bytes[bytes.len() - 16..], 16);
		let fill = if bytes[0] & 0x80 != 0 { 0xFF } else { 0x00 };
		if bytes[..bytes.len() - 16].iter().all(|&b| b == fill)
			&& (ext[0] & 0x80 != 0) == (fill == 0xFF)
		{
			return Some(i128::from_be_bytes(ext.try_into().unwrap()));
		}
		return None;
	}
	if bytes.is_empty() {
		return Some(0);
	}
	let ext = sign_extend(bytes, 16);
	Some(i128::from_be_bytes(ext.try_into().unwrap()))
}

// ------------------------------------------------------------------ encoder

/// How to lay out the parts of the encoding the spec leaves free
#[derive(Clone, Copy, Debug, PartialEq, Eq)]
pub enum MarkKind {
	Bool,
	/// varint holding a string length; `end` is the end of the varint
	StrLen,
	/// payload bytes of a string
	StrPayload,
	BytesLen,
	UnionIndex,
	EnumIndex,
	BlockCount,
	BlockSize,
	Int,
	Long,
}
#[derive(Clone, Copy, Debug)]
pub struct Mark {
	pub kind: MarkKind,
	pub start: usize,
	pub end: usize,
	/// number of branches / symbols for index marks
	pub n: usize,
}

pub struct Layout<'a> {
	pub rng: Option<&'a mut Rng>,
	pub marks: Vec<Mark>,
	/// pad varints to over-long encodings with this probability (/16); 0 for spec-valid output
	pub overlong: u32,
}
impl<'a> Layout<'a> {
	/// single positive-count block per non-empty collection, minimal decimals
	pub fn canonical() -> Layout<'static> {
		Layout {
			rng: None,
			marks: Vec::new(),
			overlong: 0,
		}
	}
	pub fn random(rng: &'a mut Rng) -> Self {
		Layout {
			rng: Some(rng),
			marks: Vec::new(),
			overlong: 0,
		}
	}
	fn mark(&mut self, kind: MarkKind, start: usize, end: usize, n: usize) {
		self.marks.push(Mark { kind, start, end, n });
	}
	/// write a long, possibly over-long when `overlong` is set
	fn long(&mut self, n: i64, out: &mut Vec<u8>) {
		if self.overlong > 0 {
			if let Some(r) = &mut self.rng {
				if r.chance(self.overlong, 16) {
					let mut tmp = Vec::new();
					put_long(n, &mut tmp);
					let len = (tmp.len() + 1 + r.below(3)).min(10);
					if len > tmp.len() {
						put_long_padded(n, len, out);
						return;
					}
				}
			}
		}
		put_long(n, out)
	}
}

#[derive(Debug)]
pub struct EncodeError(pub String);

pub fn encode(s: &RSchema, id: Id, v: &Val, lay: &mut Layout, out: &mut Vec<u8>) -> Result<(), EncodeError> {
	let bad = |what: &str| Err(EncodeError(format!("value {:?} does not conform to node {id} ({what})", v.to_json())));
	match (s.eff(id), v) {
		(Eff::Null, Val::Null) => {}
		(Eff::Boolean, Val::Bool(b)) => {
			lay.mark(MarkKind::Bool, out.len(), out.len() + 1, 0);
			out.push(*b as u8)
		}
		(Eff::Int, Val::Int(i)) => {
			let st = out.len();
			lay.long(*i as i64, out);
			lay.mark(MarkKind::Int, st, out.len(), 0);
		}
		(Eff::Long, Val::Long(i)) => {
			let st = out.len();
			lay.long(*i, out);
			lay.mark(MarkKind::Long, st, out.len(), 0);
		}
		(Eff::Float, Val::Float(b)) => out.extend_from_slice(&b.to_le_bytes()),
		(Eff::Double, Val::Double(b)) => out.extend_from_slice(&b.to_le_bytes()),
		(Eff::Bytes, Val::Bytes(b)) => {
			let s0 = out.len();
			lay.long(b.len() as i64, out);
			lay.mark(MarkKind::BytesLen, s0, out.len(), 0);
			out.extend_from_slice(b);
		}
		(Eff::String, Val::Str(st)) => {
			let s0 = out.len();
			lay.long(st.len() as i64, out);
			lay.mark(MarkKind::StrLen, s0, out.len(), 0);
			lay.mark(MarkKind::StrPayload, out.len(), out.len() + st.len(), 0);
			out.extend_from_slice(st.as_bytes());
		}
		(Eff::Fixed(n), Val::Fixed(b)) if b.len() == n => out.extend_from_slice(b),
		(Eff::Enum, Val::Enum(i)) => match &s.node(id).kind {
			Kind::Enum { symbols, .. } if *i < symbols.len() => {
				let s0 = out.len();
				lay.long(*i as i64, out);
				lay.mark(MarkKind::EnumIndex, s0, out.len(), symbols.len());
			}
			_ => return bad("enum index"),
		},
		(Eff::Array(item), Val::Array(items)) => {
			encode_blocks(
				items.len(),
				lay,
				out,
				&mut |k, lay, out| encode(s, item, &items[k], lay, out),
			)?;
		}
		(Eff::Map(item), Val::Map(entries)) => {
			encode_blocks(entries.len(), lay, out, &mut |k, lay, out| {
				let (key, val) = &entries[k];
				let s0 = out.len();
				lay.long(key.len() as i64, out);
				lay.mark(MarkKind::StrLen, s0, out.len(), 0);
				lay.mark(MarkKind::StrPayload, out.len(), out.len() + key.len(), 0);
				out.extend_from_slice(key.as_bytes());
				encode(s, item, val, lay, out)
			})?;
		}
		(Eff::Union(branches), Val::Union(i, inner)) if *i < branches.len() => {
			let s0 = out.len();
			lay.long(*i as i64, out);
			lay.mark(MarkKind::UnionIndex, s0, out.len(), branches.len());
			encode(s, branches[*i], inner, lay, out)?;
		}
		(Eff::Record, Val::Record(vals)) => match &s.node(id).kind {
			Kind::Record { fields, .. } if fields.len() == vals.len() => {
				for ((_, fid), fv) in fields.iter().zip(vals) {
					encode(s, *fid, fv, lay, out)?;
				}
			}
			_ => return bad("record arity"),
		},
		(Eff::DecimalBytes { .. }, Val::Decimal(u)) => {
			let mut b = min_twos_complement(*u);
			if let Some(r) = &mut lay.rng {
				if r.chance(1, 3) {
					let extra = r.below(16 - b.len() + 1);
					b = sign_extend(&b, b.len() + extra);
				}
			}
			put_long(b.len() as i64, out);
			out.extend_from_slice(&b);
		}
		(Eff::DecimalFixed { size, .. }, Val::Decimal(u)) => {
			let b = min_twos_complement(*u);
			if b.len() > size {
				if size == 0 && *u == 0 {
					return Ok(());
				}
				return bad("decimal does not fit fixed");
			}
			out.extend_from_slice(&sign_extend(&b, size));
		}
		(Eff::BigDecimal, Val::BigDecimal(u, scale)) => {
			let mut inner = Vec::new();
			let b = min_twos_complement(*u);
			put_long(b.len() as i64, &mut inner);
			inner.extend_from_slice(&b);
			put_long(*scale as i64, &mut inner);
			put_long(inner.len() as i64, out);
			out.extend_from_slice(&inner);
		}
		(Eff::Duration, Val::Duration(a, b, c)) => {
			out.extend_from_slice(&a.to_le_bytes());
			out.extend_from_slice(&b.to_le_bytes());
			out.extend_from_slice(&c.to_le_bytes());
		}
		_ => return bad("kind mismatch"),
	}
	Ok(())
}

fn encode_blocks(
	n: usize,
	lay: &mut Layout,
	out: &mut Vec<u8>,
	item: &mut dyn FnMut(usize, &mut Layout, &mut Vec<u8>) -> Result<(), EncodeError>,
) -> Result<(), EncodeError> {
	// partition 0..n into blocks
	let mut cuts: Vec<usize> = Vec::new();
	let mut neg: Vec<bool> = Vec::new();
	match &mut lay.rng {
		None => {
			if n > 0 {
				cuts.push(n);
				neg.push(false);
			}
		}
		Some(r) => {
			let mut done = 0;
			while done < n {
				let remaining = n - done;
				let take = if r.chance(1, 2) {
					remaining
				} else {
					1 + r.below(remaining)
				};
				done += take;
				cuts.push(take);
				neg.push(r.chance(1, 2));
			}
		}
	}
	let mut k = 0;
	for (take, negative) in cuts.into_iter().zip(neg) {
		if negative {
			let mut body = Vec::new();
			let marks_before = lay.marks.len();
			for _ in 0..take {
				item(k, lay, &mut body)?;
				k += 1;
			}
			let s0 = out.len();
			lay.long(-(take as i64), out);
			let s1 = out.len();
			lay.long(body.len() as i64, out);
			let s2 = out.len();
			// marks recorded while encoding the body are relative to it
			for m in &mut lay.marks[marks_before..] {
				m.start += s2;
				m.end += s2;
			}
			lay.mark(MarkKind::BlockCount, s0, s1, 0);
			lay.mark(MarkKind::BlockSize, s1, s2, body.len());
			out.extend_from_slice(&body);
		} else {
			let s0 = out.len();
			lay.long(take as i64, out);
			lay.mark(MarkKind::BlockCount, s0, out.len(), 0);
			for _ in 0..take {
				item(k, lay, out)?;
				k += 1;
			}
		}
	}
	put_long(0, out);
	Ok(())
}

pub fn encode_canonical(s: &RSchema, v: &Val) -> Result<Vec<u8>, EncodeError> {
	let mut out = Vec::new();
	encode(s, 0, v, &mut Layout::canonical(), &mut out)?;
	Ok(out)
}
pub fn encode_random(s: &RSchema, v: &Val, rng: &mut Rng) -> Result<Vec<u8>, EncodeError> {
	let mut out = Vec::new();
	encode(s, 0, v, &mut Layout::random(rng), &mut out)?;
	Ok(out)
}

// ------------------------------------------------------------------ decoder

#[derive(Debug, Clone, PartialEq)]
pub enum DecodeError {
	Eof,
	Invalid(String),
	TooDeep,
}

pub struct Dec<'a> {
	pub b: &'a [u8],
	pub i: usize,
	/// accept over-long varints (the reference treats them as invalid when false)
	pub lenient_varint: bool,
	pub max_depth: usize,
	/// values the decoder is still willing to produce (protects the harness against huge counts
	/// over zero-sized elements in damaged input)
	pub budget: usize,
}

impl<'a> Dec<'a> {
	pub fn new(b: &'a [u8]) -> Self {
		Dec {
			b,
			i: 0,
			lenient_varint: false,
			max_depth: 200,
			budget: 5_000_000,
		}
	}
	fn byte(&mut self) -> Result<u8, DecodeError> {
		let x = *self.b.get(self.i).ok_or(DecodeError::Eof)?;
		self.i += 1;
		Ok(x)
	}
	fn take(&mut self, n: usize) -> Result<&'a [u8], DecodeError> {
		if self.b.len() - self.i < n {
			return Err(DecodeError::Eof);
		}
		let s = &self.b[self.i..self.i + n];
		self.i += n;
		Ok(s)
	}
	pub fn long(&mut self) -> Result<i64, DecodeError> {
		let mut u: u64 = 0;
		let mut shift = 0;
		let mut n = 0;
		loop {
			let b = self.byte()?;
			n += 1;
			if shift < 64 {
				u |= ((b & 0x7f) as u64) << shift;
			}
			shift += 7;
			if b & 0x80 == 0 {
				if !self.lenient_varint && n > 1 && b == 0 {
					return Err(DecodeError::Invalid("over-long varint".into()));
				}
				break;
			}
			if n >= 10 {
				return Err(DecodeError::Invalid("varint too long".into()));
			}
		}
		Ok(unzigzag(u))
	}
	fn int(&mut self) -> Result<i32, DecodeError> {
		let l = self.long()?;
		i32::try_from(l).map_err(|_| DecodeError::Invalid("int out of range".into()))
	}
	fn len(&mut self) -> Result<usize, DecodeError> {
		let l = self.long()?;
		usize::try_from(l).map_err(|_| DecodeError::Invalid("negative length".into()))
	}
}

pub fn decode(s: &RSchema, id: Id, d: &mut Dec, depth: usize) -> Result<Val, DecodeError> {
	if depth > d.max_depth {
		return Err(DecodeError::TooDeep);
	}
	if d.budget == 0 {
		return Err(DecodeError::Invalid("reference decoder budget exhausted".into()));
	}
	d.budget -= 1;
	Ok(match s.eff(id) {
		Eff::Null => Val::Null,
		Eff::Boolean => match d.byte()? {
			0 => Val::Bool(false),
			1 => Val::Bool(true),
			x => return Err(DecodeError::Invalid(format!("boolean byte {x}"))),
		},
		Eff::Int => Val::Int(d.int()?),
		Eff::Long => Val::Long(d.long()?),
		Eff::Float => Val::Float(u32::from_le_bytes(d.take(4)?.try_into().unwrap())),
		Eff::Double => Val::Double(u64::from_le_bytes(d.take(8)?.try_into().unwrap())),
		Eff::Bytes => {
			let n = d.len()?;
			Val::Bytes(d.take(n)?.to_vec())
		}
		Eff::String => {
			let n = d.len()?;
			let b = d.take(n)?;
			Val::Str(
				std::str::from_utf8(b)
					.map_err(|_| DecodeError::Invalid("utf8".into()))?
					.to_owned(),
			)
		}
		Eff::Fixed(n) => Val::Fixed(d.take(n)?.to_vec()),
		Eff::Enum => {
			let i = d.len().map_err(|e| match e {
				DecodeError::Invalid(_) => DecodeError::Invalid("negative enum index".into()),
				e => e,
			})?;
			match &s.node(id).kind {
				Kind::Enum { symbols, .. } if i < symbols.len() => Val::Enum(i),
				_ => return Err(DecodeError::Invalid("enum index out of range".into())),
			}
		}
		Eff::Array(item) => {
			let mut items = Vec::new();
			decode_blocks(d, &mut |d| {
				items.push(decode(s, item, d, depth + 1)?);
				Ok(())
			})?;
			Val::Array(items)
		}
		Eff::Map(item) => {
			let mut entries = Vec::new();
			decode_blocks(d, &mut |d| {
				let n = d.len()?;
				let k = std::str::from_utf8(d.take(n)?)
					.map_err(|_| DecodeError::Invalid("utf8 key".into()))?
					.to_owned();
				entries.push((k, decode(s, item, d, depth + 1)?));
				Ok(())
			})?;
			Val::Map(entries)
		}
		Eff::Union(branches) => {
			let i = d.len().map_err(|e| match e {
				DecodeError::Invalid(_) => DecodeError::Invalid("negative union index".into()),
				e => e,
			})?;
			if i >= branches.len() {
				return Err(DecodeError::Invalid("union index out of range".into()));
			}
			Val::Union(i, Box::new(decode(s, branches[i], d, depth + 1)?))
		}
		Eff::Record => match &s.node(id).kind {
			Kind::Record { fields, .. } => {
				let mut vals = Vec::with_capacity(fields.len());
				for (_, fid) in fields {
					vals.push(decode(s, *fid, d, depth + 1)?);
				}
				Val::Record(vals)
			}
			_ => unreachable!(),
		},
		Eff::DecimalBytes { .. } => {
			let n = d.len()?;
			let b = d.take(n)?;
			Val::Decimal(from_twos_complement(b).ok_or_else(|| DecodeError::Invalid("decimal > 16 bytes".into()))?)
		}
		Eff::DecimalFixed { size, .. } => {
			let b = d.take(size)?;
			Val::Decimal(from_twos_complement(b).ok_or_else(|| DecodeError::Invalid("decimal > 16 bytes".into()))?)
		}
		Eff::BigDecimal => {
			let n = d.len()?;
			let body = d.take(n)?;
			let mut inner = Dec::new(body);
			inner.lenient_varint = d.lenient_varint;
			let ulen = inner.len()?;
			let ub = inner.take(ulen)?;
			let u = from_twos_complement(ub).ok_or_else(|| DecodeError::Invalid("bigdecimal > 16 bytes".into()))?;
			let scale = inner.long()?;
			if inner.i != body.len() {
				return Err(DecodeError::Invalid("bigdecimal trailing bytes".into()));
			}
			let scale = u32::try_from(scale).map_err(|_| DecodeError::Invalid("bigdecimal scale".into()))?;
			Val::BigDecimal(u, scale)
		}
		Eff::Duration => {
			let b = d.take(12)?;
			Val::Duration(
				u32::from_le_bytes(b[0..4].try_into().unwrap()),
				u32::from_le_bytes(b[4..8].try_into().unwrap()),
				u32::from_le_bytes(b[8..12].try_into().unwrap()),
			)
		}
	})
}

fn decode_blocks(d: &mut Dec, item: &mut dyn FnMut(&mut Dec) -> Result<(), DecodeError>) -> Result<(), DecodeError> {
	loop {
		let mut count = d.long()?;
		if count == 0 {
			return Ok(());
		}
		let mut expect_end = None;
		if count < 0 {
			if count == i64::MIN {
				return Err(DecodeError::Invalid("block count".into()));
			}
			count = -count;
			let sz = d.len()?;
			expect_end = Some(d.i.checked_add(sz).ok_or(DecodeError::Eof)?);
		}
		for _ in 0..count {
			item(d)?;
		}
		if let Some(e) = expect_end {
			if d.i != e {
				return Err(DecodeError::Invalid("block byte size mismatch".into()));
			}
		}
	}
}

/// decode a full datum; returns value and consumed length
pub fn decode_datum(s: &RSchema, b: &[u8]) -> Result<(Val, usize), DecodeError> {
	let mut d = Dec::new(b);
	let v = decode(s, 0, &mut d, 0)?;
	Ok((v, d.i))
}
