//! C19 — schema construction is total: any text or node graph gives Ok/Err, never a crash.

use crate::gen::schema::{gen_schema, SchemaGenCfg};
use crate::gen::value::ValueGen;
use crate::json::J;
use crate::refavro::schema::*;
use crate::rng::Rng;
use crate::run::{thread_cpu_ns, Ctx, PropSpec};
use serde_avro_fast::schema::SchemaMut;
use serde_json::json;

pub const SPEC: PropSpec = PropSpec {
	id: "C19",
	level: "exploration",
	rule: "texts: random bytes as UTF-8, random JSON of arbitrary shape, JSON nested 10^2..10^5 deep, near-miss schemas (token-level mutations of valid documents: attribute replaced by a value of another JSON type, size negative / 1e30 / fractional / huge, duplicate keys, empty names, empty unions, unions in unions, primitives as names), flat documents with 10^3..3*10^4 named records chained by forward / backward references, levels of records each holding the next level in 2-3 fields (12..300 levels), one named type used at several places of a nest of records and defined at any one of them (all arrangements of references before / after / above / below the definition); node vectors through the public builder API: empty, dangling keys (also in nodes unreachable from the root, also usize::MAX), self-loops and longer cycles through unnamed nodes and through named nodes, shared nodes, every logical type on every node kind, arbitrary names (empty, dots only, quotes, NUL, 100 KB), 10^4..10^5 nodes. Calls: str::parse::<SchemaMut>, str::parse::<Schema>, freeze, canonical_form_rabin_fingerprint, serde_json::to_string(&SchemaMut); after a successful freeze: Debug formatting, serialization of unit / a generated value, deserialization of random bytes. Monitors: worker exit status (stack overflow = death by signal), panic hook, per-call CPU time. distinct by hash(text or graph)",
	assumptions: &["8 MiB main-thread stack; documented panicking accessors (root(), Index) are not part of the statement and are not called", "CPU bound: > 5 s for one construction call on an input <= 1 MiB is reported"],
	cases: (50_000_000, 4_000_000_000),
	secs: (30, 900),
	required: &["texts:random-json", "texts:near-miss", "texts:deep-nesting", "texts:long-chain", "texts:record-fan-out", "texts:forward-reference-arrangements", "graphs:random", "graphs:dangling-key", "graphs:unnamed-cycle", "graphs:huge", "frozen_and_used"],
	run_case,
	once: None,
	panics_are_violations: true,
	cpu_kill_secs: 30,
	max_workers: 16,
};

fn random_json(rng: &mut Rng, depth: usize) -> J {
	let pool = ["type", "name", "namespace", "fields", "symbols", "items", "values", "size", "logicalType", "precision", "scale", "record", "enum", "array", "map", "fixed", "int", "null", "decimal", "a.b", "", "x"];
	match if depth > 5 { rng.below(5) } else { rng.below(8) } {
		0 => J::Null,
		1 => J::Bool(rng.coin()),
		2 => J::n(*rng.pick(&["0", "-1", "1e30", "1.5", "12", "18446744073709551616", "-0", "1E-400"])),
		3 | 4 => J::s(*rng.pick(&pool[..])),
		5 => J::Arr((0..rng.below(4)).map(|_| random_json(rng, depth + 1)).collect()),
		_ => J::Obj(
			(0..rng.below(6))
				.map(|_| ((*rng.pick(&pool)).to_owned(), random_json(rng, depth + 1)))
				.collect(),
		),
	}
}

fn mutate_json(j: &mut J, rng: &mut Rng) -> bool {
	// walk to a random node and damage it
	match j {
		J::Obj(kv) if !kv.is_empty() => {
			let k = rng.below(kv.len());
			if rng.chance(1, 2) && mutate_json(&mut kv[k].1, rng) {
				return true;
			}
			match rng.below(7) {
				0 => kv[k].1 = random_json(rng, 4),
				1 => {
					let dup = kv[k].clone();
					kv.push(dup);
				}
				2 => {
					kv.remove(k);
				}
				3 => kv[k].1 = J::n(*rng.pick(&["-1", "1e30", "2.5", "99999999999999999999", "0"])),
				4 => kv[k].1 = J::s(*rng.pick(&["", ".", "..", "a..b", "int", "\u{0}", "\"", "record"])),
				5 => kv[k].1 = J::Arr(vec![]),
				_ => kv[k].0 = (*rng.pick(&["type", "name", "fields", "logicalType", "size"])).to_owned(),
			}
			true
		}
		J::Arr(v) if !v.is_empty() => {
			let k = rng.below(v.len());
			if rng.chance(2, 3) && mutate_json(&mut v[k], rng) {
				return true;
			}
			match rng.below(4) {
				0 => v[k] = J::Arr(vec![J::s("null"), J::s("int")]),
				1 => {
					let d = v[k].clone();
					v.push(d);
				}
				2 => v.clear(),
				_ => v[k] = random_json(rng, 4),
			}
			true
		}
		other => {
			*other = random_json(rng, 4);
			true
		}
	}
}

fn logical_pool(rng: &mut Rng) -> Option<Logical> {
	Some(match rng.below(12) {
		0 => Logical::Decimal {
			precision: *rng.pick(&[0usize, 1, 10, usize::MAX]),
			scale: *rng.pick(&[0u32, 2, 28, 29, u32::MAX]),
		},
		1 => Logical::Uuid,
		2 => Logical::Date,
		3 => Logical::TimeMillis,
		4 => Logical::TimeMicros,
		5 => Logical::TimestampMillis,
		6 => Logical::TimestampMicros,
		7 => Logical::Duration,
		8 => Logical::BigDecimal,
		9 => Logical::Unknown(String::new()),
		10 => Logical::Unknown("\"quoted\\".into()),
		_ => return None,
	})
}

fn weird_name(rng: &mut Rng) -> String {
	match rng.below(10) {
		0 => String::new(),
		1 => ".".into(),
		2 => "...".into(),
		3 => "a..b".into(),
		4 => "\"q\"".into(),
		5 => "nul\u{0}name".into(),
		6 => "x".repeat(100_000),
		7 => ".lead".into(),
		8 => "trail.".into(),
		_ => format!("n{}", rng.below(5)),
	}
}

/// arbitrary node vector: any key anywhere
fn random_graph(rng: &mut Rng, n: usize, key_range: usize) -> RSchema {
	let mut nodes = Vec::with_capacity(n);
	let key = |rng: &mut Rng| -> usize {
		match rng.below(20) {
			0 => usize::MAX,
			1 => key_range + rng.below(3),
			_ => rng.below(key_range.max(1)),
		}
	};
	for _ in 0..n {
		let kind = match rng.below(14) {
			0 => Kind::Null,
			1 => Kind::Boolean,
			2 => Kind::Int,
			3 => Kind::Long,
			4 => Kind::Float,
			5 => Kind::Double,
			6 => Kind::Bytes,
			7 => Kind::String,
			8 => Kind::Array(key(rng)),
			9 => Kind::Map(key(rng)),
			10 => Kind::Union((0..rng.below(4)).map(|_| key(rng)).collect()),
			11 => Kind::Record {
				name: weird_name(rng),
				fields: (0..rng.below(4)).map(|i| (if rng.chance(1, 5) { weird_name(rng) } else { format!("f{i}") }, key(rng))).collect(),
			},
			12 => Kind::Enum {
				name: weird_name(rng),
				symbols: (0..rng.below(4)).map(|_| weird_name(rng)).collect(),
			},
			_ => Kind::Fixed {
				name: weird_name(rng),
				size: *rng.pick(&[0usize, 1, 12, 16, 17, usize::MAX]),
			},
		};
		nodes.push(Node {
			kind,
			logical: if rng.chance(1, 3) { logical_pool(rng) } else { None },
		});
	}
	RSchema { nodes }
}

fn graph_hash(g: &RSchema) -> u64 {
	crate::rng::fnv(format!("{:?}", g.nodes.iter().take(64).collect::<Vec<_>>()).as_bytes()) ^ g.nodes.len() as u64
}

fn timed<T>(ctx: &mut Ctx, case_seed: u64, what: &str, size: usize, detail: &dyn Fn() -> serde_json::Value, f: impl FnOnce() -> T) -> T {
	let t0 = thread_cpu_ns();
	let r = f();
	let dt = thread_cpu_ns() - t0;
	ctx.max(&format!("cpu_us:{what}"), dt / 1000);
	if dt > 5_000_000_000 && size <= (1 << 20) {
		ctx.violation(format!("construction-call-not-bounded call={what}"), case_seed, json!({"cpu_seconds": dt as f64 / 1e9, "input": detail()}));
	}
	r
}

fn exercise_text(ctx: &mut Ctx, case_seed: u64, text: &str) {
	let d = || json!({"text_len": text.len(), "text_head": text.chars().take(400).collect::<String>()});
	let r1 = timed(ctx, case_seed, "parse-SchemaMut", text.len(), &d, || text.parse::<SchemaMut>());
	let r2 = timed(ctx, case_seed, "parse-Schema", text.len(), &d, || text.parse::<serde_avro_fast::Schema>());
	if let Ok(sm) = &r1 {
		let _ = timed(ctx, case_seed, "fingerprint", text.len(), &d, || sm.canonical_form_rabin_fingerprint());
		let _ = timed(ctx, case_seed, "to_json", text.len(), &d, || serde_json::to_string(sm));
	}
	if let Ok(s) = r2 {
		use_schema(ctx, case_seed, &s, None);
	}
	ctx.distinct_bytes(&[text.as_bytes()]);
	ctx.sample(|| json!({"kind": "text", "text_len": text.len(), "text_head": text.chars().take(300).collect::<String>()}));
}

fn use_schema(ctx: &mut Ctx, _case_seed: u64, s: &serde_avro_fast::Schema, rs: Option<&RSchema>) {
	ctx.count("frozen_and_used");
	let dbg = format!("{s:?}");
	ctx.max("debug_len", dbg.len() as u64);
	let _ = s.json().len();
	let mut cfg = serde_avro_fast::ser::SerializerConfig::new(s);
	let _ = serde_avro_fast::to_datum_vec(&(), &mut cfg);
	let _ = serde_avro_fast::to_datum_vec(&5i32, &mut cfg);
	let _ = serde_avro_fast::to_datum_vec("x", &mut cfg);
	if let Some(rs) = rs {
		// a generated value, when the graph happens to be a valid schema for the generators
		let md = crate::gen::schema::min_depths(rs);
		if md.iter().all(|&d| d < 1000) && rs.nodes.len() < 200 && rs.reachable().iter().all(|&i| rs.children(i).iter().all(|&c| c < rs.nodes.len())) {
			let well_formed = rs.reachable().iter().all(|&i| match &rs.nodes[i].kind {
				Kind::Enum { symbols, .. } => !symbols.is_empty(),
				Kind::Union(v) => !v.is_empty() && v.iter().all(|&b| !matches!(rs.nodes[b].kind, Kind::Union(_))),
				Kind::Fixed { size, .. } => *size < 100_000,
				_ => true,
			}) && rs.nodes.iter().all(|n| !matches!(n.logical, Some(Logical::Decimal { scale, .. }) if scale > 28));
			if well_formed {
				let mut rng = Rng::new(_case_seed);
				let mut vg = ValueGen::new(rs);
				vg.budget = 30;
				vg.max_depth = 6;
				let v = vg.gen(&mut rng);
				let p = crate::bridge::present::Pres::canonical();
				let _ = serde_avro_fast::to_datum_vec(&crate::bridge::present::Present::new(rs, &v, &p), &mut cfg);
				ctx.count("generated_value_serialized");
			}
		}
	}
	for bytes in [&[][..], &[0x02, 0x02, 0x02, 0x02, 0x02, 0x02][..], &[0xFF; 12][..], &[0x00; 40][..], &[0x04, 0x06, 0x61, 0x62, 0x63, 0x02, 0x02, 0x00][..]] {
		let _ = serde_avro_fast::from_datum_slice::<serde::de::IgnoredAny>(bytes, s);
		let _ = serde_avro_fast::from_datum_slice::<crate::props::c11::AnyOwned>(bytes, s);
	}
	let long02 = vec![0x02u8; 5000];
	let _ = serde_avro_fast::from_datum_slice::<crate::props::c11::AnyOwned>(&long02, s);
}

fn exercise_graph(ctx: &mut Ctx, case_seed: u64, g: &RSchema) {
	let d = || json!({"nodes": g.nodes.len(), "graph_head": format!("{:?}", g.nodes.iter().take(12).collect::<Vec<_>>()).chars().take(1500).collect::<String>()});
	let size = g.nodes.len() * 16;
	let sm = g.to_schema_mut();
	let _ = timed(ctx, case_seed, "fingerprint", size, &d, || sm.canonical_form_rabin_fingerprint());
	let _ = timed(ctx, case_seed, "to_json", size, &d, || serde_json::to_string(&sm));
	let _ = format!("{:?}", sm.nodes().len());
	let fr = timed(ctx, case_seed, "freeze", size, &d, || sm.freeze());
	if let Ok(s) = fr {
		use_schema(ctx, case_seed, &s, Some(g));
	}
	ctx.distinct(graph_hash(g));
	ctx.sample(|| json!({"kind": "graph", "nodes": g.nodes.len(), "graph_head": format!("{:?}", g.nodes.iter().take(6).collect::<Vec<_>>()).chars().take(600).collect::<String>()}));
}

/// Stack-probing cases run alone in a child process: a crash then costs one case, and the
/// signature names the shape that crashed.
fn isolated(ctx: &mut Ctx, case_seed: u64, label: String) -> bool {
	use crate::run::{in_isolated_child, run_isolated, Isolated};
	if in_isolated_child() || ctx.verbose {
		return false; // run the body here
	}
	match run_isolated("C19", ctx.thorough, case_seed, 20.0) {
		Isolated::Completed(sigs) => {
			for s in sigs {
				ctx.violation(s, case_seed, json!({"shape": label, "reported_by": "isolated child"}));
			}
		}
		Isolated::Died(how) => ctx.violation(format!("process-death ({how}) shape={label}"), case_seed, json!({"shape": label, "died": how})),
		Isolated::CpuBudget(cpu) => ctx.violation(format!("cpu-budget-exceeded shape={label}"), case_seed, json!({"shape": label, "cpu_seconds": cpu})),
		Isolated::Inconclusive(_) => ctx.inconclusive += 1,
	}
	true
}

pub fn run_case(ctx: &mut Ctx, case_seed: u64) {
	let mut rng = Rng::new(case_seed);
	let p = |k: Kind| Node { kind: k, logical: None };
	match rng.below(16) {
		0 => {
			let n = rng.below(200);
			let b = rng.bytes(n);
			exercise_text(ctx, case_seed, &String::from_utf8_lossy(&b));
			ctx.count("texts:random-bytes");
		}
		1 | 2 => {
			let j = random_json(&mut rng, 0);
			let t = if rng.coin() { j.compact() } else { j.styled(&mut rng) };
			exercise_text(ctx, case_seed, &t);
			ctx.count("texts:random-json");
		}
		5 => {
			// one named type used at several places of a nest of records (and through arrays / unions), defined at any one of
			// them: every other use is a reference, before or after the definition, from an ancestor or a descendant of the
			// node that holds the definition
			let depth = 1 + rng.below(4);
			let def_kind = rng.below(3);
			let definition = match def_kind {
				0 => "{\"type\":\"fixed\",\"name\":\"C\",\"size\":2}".to_owned(),
				1 => "{\"type\":\"enum\",\"name\":\"C\",\"symbols\":[\"A\"]}".to_owned(),
				_ => "{\"type\":\"record\",\"name\":\"C\",\"fields\":[{\"name\":\"z\",\"type\":\"int\"}]}".to_owned(),
			};
			// slots: (level, position) - each level has 1-3 uses of C around its nested record
			let mut slots: Vec<(usize, usize)> = Vec::new();
			let per_level: Vec<usize> = (0..=depth).map(|_| 1 + rng.below(3)).collect();
			for (lvl, &n) in per_level.iter().enumerate() {
				for k in 0..n {
					slots.push((lvl, k));
				}
			}
			let def_slot = *rng.pick(&slots);
			let wrap = |t: String, rng: &mut Rng| -> String {
				match rng.below(4) {
					0 => format!("{{\"type\":\"array\",\"items\":{t}}}"),
					1 => format!("[\"null\",{t}]"),
					2 => format!("{{\"type\":\"map\",\"values\":{t}}}"),
					_ => t,
				}
			};
			fn level(lvl: usize, depth: usize, per_level: &[usize], def_slot: (usize, usize), definition: &str, wrap: &dyn Fn(String, &mut Rng) -> String, rng: &mut Rng) -> String {
				let n = per_level[lvl];
				let nested_at = rng.below(n + 1);
				let mut fields: Vec<String> = Vec::new();
				for k in 0..=n {
					if k == nested_at && lvl < depth {
						fields.push(format!("{{\"name\":\"nest\",\"type\":{}}}", level(lvl + 1, depth, per_level, def_slot, definition, wrap, rng)));
					}
					if k < n {
						let t = if (lvl, k) == def_slot { definition.to_owned() } else { "\"C\"".to_owned() };
						fields.push(format!("{{\"name\":\"u{k}\",\"type\":{}}}", wrap(t, rng)));
					}
				}
				format!("{{\"type\":\"record\",\"name\":\"L{lvl}\",\"fields\":[{}]}}", fields.join(","))
			}
			let t = level(0, depth, &per_level, def_slot, &definition, &wrap, &mut rng);
			exercise_text(ctx, case_seed, &t);
			ctx.count("texts:forward-reference-arrangements");
		}
		3 | 4 => {
			let mut cfg = SchemaGenCfg::default();
			cfg.max_nodes = *rng.pick(&[3, 10, 24]);
			let rs = gen_schema(&mut rng, &cfg);
			let mut j = rs.spell(Some(&mut rng));
			for _ in 0..1 + rng.below(3) {
				mutate_json(&mut j, &mut rng);
			}
			exercise_text(ctx, case_seed, &j.compact());
			ctx.count("texts:near-miss");
		}
		6 => {
			// deep nesting
			let depth = *rng.pick(&[100usize, 127, 128, 129, 1000, 20_000, 100_000]);
			let form = rng.below(3);
			ctx.count("texts:deep-nesting");
			if isolated(ctx, case_seed, format!("texts:deep-nesting depth={depth} form={form}")) {
				return;
			}
			let t = match form {
				0 => format!("{}\"int\"{}", "[".repeat(depth), "]".repeat(depth)),
				1 => format!("{}\"int\"{}", "{\"type\":\"array\",\"items\":".repeat(depth), "}".repeat(depth)),
				_ => format!("{}{}", "{\"type\":{\"type\":".repeat(depth / 2), "\"int\""),
			};
			exercise_text(ctx, case_seed, &t);
		}
		7 if rng.chance(1, 3) => {
			// levels of records where each record holds the next level's record in several fields (no union, no array in
			// between): a DAG with 1 path per level when walked with memory of what was seen, width^levels paths without
			let levels = *rng.pick(&[12usize, 24, 40, 80, 300]);
			let width = 2 + rng.below(2);
			let forward = rng.coin();
			ctx.count("texts:record-fan-out");
			if isolated(ctx, case_seed, format!("texts:record-fan-out levels={levels} width={width} forward={forward}")) {
				return;
			}
			let mut defs: Vec<String> = (0..levels)
				.map(|i| {
					let fields: Vec<String> = (0..width)
						.map(|k| {
							if i + 1 < levels {
								format!("{{\"name\":\"f{k}\",\"type\":\"L{}\"}}", i + 1)
							} else {
								format!("{{\"name\":\"f{k}\",\"type\":\"int\"}}")
							}
						})
						.collect();
					format!("{{\"type\":\"record\",\"name\":\"L{i}\",\"fields\":[{}]}}", fields.join(","))
				})
				.collect();
			if !forward {
				defs.reverse();
			}
			let t = format!("[{}]", defs.join(","));
			exercise_text(ctx, case_seed, &t);
		}
		7 => {
			// long flat chain of records referring to each other
			let n = *rng.pick(&[1000usize, 3000, 10_000, 30_000]);
			let forward = rng.coin();
			let through = *rng.pick(&["union", "array", "direct-nullable"]);
			ctx.count("texts:long-chain");
			if isolated(ctx, case_seed, format!("texts:long-chain n={n} forward={forward} through={through}")) {
				return;
			}
			let mut defs = Vec::with_capacity(n);
			for i in 0..n {
				let target = if forward { (i + 1) % n } else { (i + n - 1) % n };
				let ty = match through {
					"union" => format!("[\"null\",\"C{target}\"]"),
					"array" => format!("{{\"type\":\"array\",\"items\":\"C{target}\"}}"),
					_ => format!("[\"C{target}\",\"null\"]"),
				};
				defs.push(format!("{{\"type\":\"record\",\"name\":\"C{i}\",\"fields\":[{{\"name\":\"n\",\"type\":{ty}}}]}}"));
			}
			let t = format!("[{}]", defs.join(","));
			exercise_text(ctx, case_seed, &t);
		}
		8 | 9 | 10 => {
			let n = 1 + rng.below(12);
			let g = random_graph(&mut rng, n, n);
			exercise_graph(ctx, case_seed, &g);
			ctx.count("graphs:random");
		}
		11 => {
			// dangling keys, also in nodes unreachable from the root
			let g = match rng.below(5) {
				0 => RSchema { nodes: vec![] },
				1 => RSchema {
					nodes: vec![p(Kind::Int), p(Kind::Union(vec![0, 2]))],
				},
				2 => RSchema {
					nodes: vec![p(Kind::Int), p(Kind::Null), p(Kind::Array(usize::MAX))],
				},
				3 => RSchema {
					nodes: vec![
						p(Kind::Record {
							name: "R".into(),
							fields: vec![("a".into(), 1)],
						}),
						p(Kind::Map(7)),
					],
				},
				_ => {
					let n = 2 + rng.below(6);
					let mut g = random_graph(&mut rng, n, n);
					let k = rng.below(n);
					g.nodes[k].kind = Kind::Array(n + rng.below(3));
					g
				}
			};
			exercise_graph(ctx, case_seed, &g);
			ctx.count("graphs:dangling-key");
		}
		12 => {
			let g = match rng.below(5) {
				0 => RSchema { nodes: vec![p(Kind::Array(0))] },
				1 => RSchema {
					nodes: vec![p(Kind::Union(vec![1, 0])), p(Kind::Null)],
				},
				2 => RSchema {
					nodes: vec![p(Kind::Map(1)), p(Kind::Array(2)), p(Kind::Union(vec![0]))],
				},
				3 => RSchema {
					nodes: vec![
						p(Kind::Record {
							name: "R".into(),
							fields: vec![("a".into(), 0)],
						}),
					],
				},
				_ => RSchema {
					nodes: vec![
						p(Kind::Record {
							name: "R".into(),
							fields: vec![("a".into(), 1)],
						}),
						p(Kind::Record {
							name: "S".into(),
							fields: vec![("b".into(), 2)],
						}),
						p(Kind::Array(3)),
						p(Kind::Map(2)),
					],
				},
			};
			exercise_graph(ctx, case_seed, &g);
			ctx.count("graphs:unnamed-cycle");
		}
		13 => {
			// huge graphs: long chains through the builder
			let n = *rng.pick(&[10_000usize, 50_000, 100_000]);
			let mut nodes = Vec::with_capacity(n + 1);
			let style = rng.below(3);
			ctx.count("graphs:huge");
			if isolated(ctx, case_seed, format!("graphs:huge-chain n={n} of={}", ["array", "record", "union"][style])) {
				return;
			}
			for i in 0..n {
				nodes.push(match style {
					0 => p(Kind::Array(i + 1)),
					1 => p(Kind::Record {
						name: format!("R{i}"),
						fields: vec![("n".into(), i + 1)],
					}),
					_ => p(Kind::Union(vec![i + 1])),
				});
			}
			nodes.push(p(Kind::Int));
			let g = RSchema { nodes };
			exercise_graph(ctx, case_seed, &g);
		}
		_ => {
			// valid graphs with every logical type everywhere
			let mut cfg = SchemaGenCfg::default();
			cfg.max_nodes = 12;
			let mut g = gen_schema(&mut rng, &cfg);
			for n in &mut g.nodes {
				if rng.chance(1, 2) && !matches!(n.kind, Kind::Union(_)) {
					n.logical = logical_pool(&mut rng);
				}
			}
			exercise_graph(ctx, case_seed, &g);
			ctx.count("graphs:logical-everywhere");
		}
	}
}
