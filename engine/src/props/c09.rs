//! C09 — schema JSON: preserved when parsed, regenerated equivalently when built / edited.

use crate::gen::schema::{gen_schema, shape_hash, SchemaGenCfg};
use crate::json::{json_eq, parse as jparse};
use crate::refavro::schema::*;
use crate::rng::Rng;
use crate::run::{Ctx, PropSpec};
use crate::sut::err_sig;
use serde_avro_fast::schema::SchemaMut;
use serde_json::json;

pub const SPEC: PropSpec = PropSpec {
	id: "C09",
	level: "exploration",
	rule: "three kinds of case. (parsed) random spelling with extra attributes -> Schema::json() must be JSON-equal (same keys, same order) to the source and contain no insignificant whitespace (independent tokenizer). (built) node graph assembled through the public builder API with unique fullnames, with DAG sharing of named nodes, cycles through records, and every namespace arrangement at an edge incl. null-namespace types referenced from inside a namespace (not expressible by the text generator) -> Schema::json() and serde_json::to_string(&SchemaMut) are read by the independent reference resolver and must be bisimilar to the built graph; re-parsing with the crate must give the same fingerprint and a graph bisimilar to the built one (logical types and parameters included). (edited) parsed document + nodes_mut() no-op edit -> regenerated JSON, same check. (inexpressible) a cycle of 1-4 unnamed nodes (arrays, maps, unions whose other branches are named types defined there or already written earlier, so that by-name references occur inside the cycle), as the root or below a record, or a logical type on a union, must give Err from JSON rendering and from freeze, the cycles also from the fingerprint. distinct by hash(graph shape, json text)",
	assumptions: &["numbers in extra attributes are small integers (JSON numbers re-rendered by serde_json stay equal)"],
	cases: (50_000_000, 4_000_000_000),
	secs: (30, 600),
	required: &["parsed_json_preserved", "built_json_equivalent", "edited_json_equivalent", "inexpressible_rejected", "unnamed_cycle_with_named_branches", "null_ns_type_referenced_from_namespace"],
	run_case,
	once: None,
	panics_are_violations: true,
	cpu_kill_secs: 60,
	max_workers: 16,
};

/// no whitespace outside of string literals
fn has_insignificant_whitespace(text: &str) -> bool {
	let mut in_str = false;
	let mut esc = false;
	for c in text.chars() {
		if in_str {
			if esc {
				esc = false;
			} else if c == '\\' {
				esc = true;
			} else if c == '"' {
				in_str = false;
			}
		} else if c == '"' {
			in_str = true;
		} else if c.is_whitespace() {
			return true;
		}
	}
	false
}

/// Re-target a few edges so that namespace arrangements the text generator cannot produce
/// appear: references to null-namespace types from inside a namespace, and vice versa.
fn add_free_references(rs: &mut RSchema, rng: &mut Rng) -> bool {
	let named: Vec<Id> = rs.reachable().into_iter().filter(|&i| rs.is_named(i)).collect();
	if named.is_empty() {
		return false;
	}
	let mut changed = false;
	let reach = rs.reachable();
	for &p in &reach {
		if !rng.chance(1, 3) {
			continue;
		}
		let target = *rng.pick(&named);
		let ns_null = rs.fullname(target).map_or(false, |f| !f.contains('.'));
		match &mut rs.nodes[p].kind {
			// only edges behind an array/map are re-targeted, which keeps every value finite and
			// avoids unconditional record cycles and invalid unions
			Kind::Array(i) | Kind::Map(i) => {
				*i = target;
				changed |= ns_null;
			}
			_ => {}
		}
	}
	// share unnamed nodes too (a DAG the JSON has to duplicate), as long as no cycle made of
	// unnamed nodes only appears
	let containers: Vec<Id> = rs
		.reachable()
		.into_iter()
		.filter(|&i| matches!(rs.nodes[i].kind, Kind::Array(_) | Kind::Map(_)))
		.collect();
	if containers.len() >= 2 {
		for _ in 0..2 {
			let p = *rng.pick(&containers);
			let target = *rng.pick(&containers);
			let old = rs.nodes[p].kind.clone();
			match &mut rs.nodes[p].kind {
				Kind::Array(i) | Kind::Map(i) => *i = target,
				_ => {}
			}
			if has_unnamed_cycle(rs) {
				rs.nodes[p].kind = old;
			}
		}
	}
	changed
}

/// a cycle that goes through arrays / maps / unions only
fn has_unnamed_cycle(rs: &RSchema) -> bool {
	fn visit(rs: &RSchema, id: Id, on_stack: &mut Vec<bool>, done: &mut Vec<bool>) -> bool {
		if id >= rs.nodes.len() || done[id] {
			return false;
		}
		if on_stack[id] {
			return true;
		}
		let next: Vec<Id> = match &rs.nodes[id].kind {
			Kind::Array(i) | Kind::Map(i) => vec![*i],
			Kind::Union(v) => v.clone(),
			_ => return false,
		};
		on_stack[id] = true;
		for n in next {
			if visit(rs, n, on_stack, done) {
				return true;
			}
		}
		on_stack[id] = false;
		done[id] = true;
		false
	}
	let n = rs.nodes.len();
	(0..n).any(|i| visit(rs, i, &mut vec![false; n], &mut vec![false; n]))
}

fn check_regenerated(ctx: &mut Ctx, case_seed: u64, what: &str, built: &RSchema, json_text: &str, fp: Option<[u8; 8]>) -> bool {
	let describe = |extra: serde_json::Value| {
		json!({"graph": format!("{:?}", built.nodes).chars().take(2000).collect::<String>(), "regenerated_json": json_text, "extra": extra})
	};
	let doc = match jparse(json_text) {
		Ok(d) => d,
		Err(e) => {
			ctx.violation(format!("{what}: regenerated-json-is-not-json"), case_seed, describe(json!({"error": e})));
			return false;
		}
	};
	if has_insignificant_whitespace(json_text) {
		ctx.violation(format!("{what}: regenerated-json-has-whitespace"), case_seed, describe(json!({})));
		return false;
	}
	let back = match resolve(&doc) {
		Ok(b) => b,
		Err(e) => {
			ctx.violation(
				format!("{what}: regenerated-json-does-not-denote-a-schema"),
				case_seed,
				describe(json!({"reference_resolver_error": e.0})),
			);
			return false;
		}
	};
	if let Err(why) = bisimilar(built, &back) {
		let class: String = why.split(':').nth(1).unwrap_or("").split_whitespace().take(2).collect::<Vec<_>>().join("-");
		ctx.violation(format!("{what}: regenerated-json-denotes-a-different-schema {class}"), case_seed, describe(json!({"difference": why})));
		return false;
	}
	// the crate's own parser must read it back to the same fingerprint
	match json_text.parse::<SchemaMut>() {
		Ok(sm) => {
			if let (Some(fp), Ok(fp2)) = (fp, sm.canonical_form_rabin_fingerprint()) {
				if fp != fp2 {
					ctx.violation(format!("{what}: reparsed-fingerprint-differs"), case_seed, describe(json!({})));
					return false;
				}
			}
			// ... and to the same graph, logical types and their parameters included (the fingerprint ignores those)
			let reparsed = RSchema::from_schema_mut(&sm);
			if let Err(why) = bisimilar(built, &reparsed) {
				let class: String = why.split(':').nth(1).unwrap_or("").split_whitespace().take(2).collect::<Vec<_>>().join("-");
				ctx.violation(format!("{what}: crate-reparse-of-its-own-json-gives-a-different-schema {class}"), case_seed, describe(json!({"difference": why})));
				return false;
			}
			ctx.count("reparsed_graph_equal");
		}
		Err(e) => {
			// leading-dot references are outside what the parser is specified to read; anything else is a defect
			if !json_text.contains("\".") {
				ctx.violation(
					format!("{what}: crate-cannot-reparse-its-own-json {}", err_sig(&e.to_string())),
					case_seed,
					describe(json!({"error": e.to_string()})),
				);
				return false;
			}
			ctx.count("reparse_skipped_leading_dot_reference");
		}
	}
	true
}

pub fn run_case(ctx: &mut Ctx, case_seed: u64) {
	let mut rng = Rng::new(case_seed);
	let mut cfg = SchemaGenCfg::default();
	cfg.max_nodes = *rng.pick(&[1, 4, 10, 24, 30]);
	cfg.allow_big_fixed_decimal = true;
	let mut rs = gen_schema(&mut rng, &cfg);
	match rng.below(8) {
		0 | 1 => {
			// ---- parsed, unedited
			let j = rs.spell(Some(&mut rng));
			let text = j.styled(&mut rng);
			let schema: serde_avro_fast::Schema = match text.parse() {
				Ok(s) => s,
				Err(e) => {
					ctx.violation(format!("parsed: document-rejected {}", err_sig(&e.to_string())), case_seed, json!({"document": text, "error": e.to_string()}));
					return;
				}
			};
			let out = schema.json();
			let ok = match jparse(out) {
				Ok(o) => json_eq(&j, &o),
				Err(_) => false,
			};
			if !ok {
				ctx.violation("parsed: json-not-preserved", case_seed, json!({"document": text, "json()": out}));
				return;
			}
			if has_insignificant_whitespace(out) {
				ctx.violation("parsed: json-not-minified", case_seed, json!({"document": text, "json()": out}));
				return;
			}
			ctx.count("parsed_json_preserved");
			ctx.distinct_bytes(&[out.as_bytes()]);
			ctx.sample(|| json!({"kind": "parsed", "document": text, "json()": out}));
		}
		2 | 3 | 4 | 5 => {
			// ---- built through the API
			if rng.coin() && add_free_references(&mut rs, &mut rng) {
				ctx.count("null_ns_type_referenced_from_namespace");
			}
			let sm = rs.to_schema_mut();
			let fp = sm.canonical_form_rabin_fingerprint().ok();
			let via_serde = serde_json::to_string(&sm);
			let frozen = sm.freeze();
			let (schema, text2) = match (frozen, via_serde) {
				(Ok(s), Ok(t)) => (s, t),
				(a, b) => {
					ctx.violation(
						"built: expressible-graph-rejected",
						case_seed,
						json!({"graph": format!("{:?}", rs.nodes).chars().take(2000).collect::<String>(), "freeze": format!("{:?}", a.as_ref().map(|_| "ok").map_err(|e| e.to_string())), "to_string": format!("{:?}", b.as_ref().map(|_| "ok").map_err(|e| e.to_string()))}),
					);
					return;
				}
			};
			if schema.json() != text2 {
				ctx.violation("built: Schema::json()-differs-from-serde_json::to_string(&SchemaMut)", case_seed, json!({"json()": schema.json(), "to_string": text2}));
				return;
			}
			if !check_regenerated(ctx, case_seed, "built", &rs, schema.json(), fp) {
				return;
			}
			if Some(*schema.rabin_fingerprint()) != fp {
				ctx.violation("built: frozen-fingerprint-differs", case_seed, json!({}));
				return;
			}
			ctx.count("built_json_equivalent");
			ctx.distinct_bytes(&[&shape_hash(&rs).to_le_bytes(), schema.json().as_bytes()]);
			ctx.sample(|| json!({"kind": "built", "graph_nodes": rs.nodes.len(), "json()": schema.json()}));
		}
		6 => {
			// ---- parsed then edited (no-op edit through nodes_mut)
			let j = rs.spell(Some(&mut rng));
			let text = j.styled(&mut rng);
			let mut sm: SchemaMut = match text.parse() {
				Ok(s) => s,
				Err(_) => return,
			};
			let parsed_graph = RSchema::from_schema_mut(&sm);
			let fp = sm.canonical_form_rabin_fingerprint().ok();
			{
				let nodes = sm.nodes_mut();
				if !nodes.is_empty() {
					let first = nodes[0].clone();
					nodes[0] = first;
				}
			}
			let schema = match sm.freeze() {
				Ok(s) => s,
				Err(e) => {
					ctx.violation(format!("edited: freeze-failed {}", err_sig(&e.to_string())), case_seed, json!({"document": text, "error": e.to_string()}));
					return;
				}
			};
			if !check_regenerated(ctx, case_seed, "edited", &parsed_graph, schema.json(), fp) {
				return;
			}
			ctx.count("edited_json_equivalent");
			ctx.distinct_bytes(&[schema.json().as_bytes()]);
		}
		_ => {
			// ---- inexpressible graphs
			let p = |k: Kind| Node { kind: k, logical: None };
			let (g, why): (RSchema, &str) = if rng.chance(1, 5) {
				(
					RSchema {
						nodes: vec![
							Node {
								kind: Kind::Union(vec![1, 2]),
								logical: Some(Logical::Unknown("x".into())),
							},
							p(Kind::Null),
							p(Kind::Int),
						],
					},
					"logical type on a union",
				)
			} else {
				// a cycle of 1-4 unnamed nodes (arrays, maps, unions); its unions have other branches too - named types that are
				// defined right there or were already written earlier (so that they appear as by-name references inside the cycle);
				// the whole thing is the root or hangs below a record whose earlier fields define those named types
				let below_record = rng.coin();
				let mut nodes: Vec<Node> = Vec::new();
				if below_record {
					nodes.push(p(Kind::Null)); // placeholder for the root record
				}
				let len = 1 + rng.below(4);
				let base = nodes.len();
				let e = base + len;
				let f = base + len + 1;
				let nul = base + len + 2;
				let mut prev_union = false;
				let mut uses_named = false;
				for i in 0..len {
					let next = base + (i + 1) % len;
					let first_is_union = i + 1 == len && matches!(nodes.get(base).map(|n| &n.kind), Some(Kind::Union(_)));
					let k = if prev_union || first_is_union || len == 1 { rng.below(2) } else { rng.below(3) };
					prev_union = k == 2;
					nodes.push(p(match k {
						0 => Kind::Array(next),
						1 => Kind::Map(next),
						_ => {
							let mut bs = vec![next];
							if rng.coin() {
								bs.push(e);
								uses_named = true;
							}
							if rng.coin() {
								bs.push(f);
								uses_named = true;
							}
							if rng.coin() {
								bs.push(nul);
							}
							rng.shuffle(&mut bs);
							Kind::Union(bs)
						}
					}));
				}
				nodes.push(p(Kind::Enum {
					name: "ns.E".into(),
					symbols: vec!["A".into(), "B".into()],
				}));
				nodes.push(p(Kind::Fixed { name: "F".into(), size: 4 }));
				nodes.push(p(Kind::Null));
				if below_record {
					let mut fields: Vec<(String, Id)> = Vec::new();
					if rng.coin() {
						fields.push(("e_first".into(), e));
					}
					if rng.coin() {
						fields.push(("f_first".into(), f));
					}
					fields.push(("cyc".into(), base));
					if rng.coin() {
						fields.push(("e_after".into(), e));
					}
					nodes[0] = p(Kind::Record { name: "R".into(), fields });
				}
				if uses_named {
					ctx.count("unnamed_cycle_with_named_branches");
				}
				(RSchema { nodes }, "cycle through unnamed nodes only")
			};
			let sm = g.to_schema_mut();
			let r1 = serde_json::to_string(&sm);
			if let Ok(t) = &r1 {
				ctx.violation(
					format!("inexpressible-graph-rendered ({why})"),
					case_seed,
					json!({"graph": format!("{:?}", g.nodes), "json": t}),
				);
				return;
			}
			// the same graph has no canonical form and cannot become a usable schema either
			let r2 = sm.canonical_form_rabin_fingerprint();
			let r3 = sm.freeze();
			// (the canonical form ignores logical types, so a fingerprint exists for the union with a logical type)
			let cyclic = why.starts_with("cycle");
			if (cyclic && r2.is_ok()) || r3.is_ok() {
				ctx.violation(
					format!("inexpressible-graph-accepted ({why}) fingerprint_ok={} freeze_ok={}", r2.is_ok(), r3.is_ok()),
					case_seed,
					json!({"graph": format!("{:?}", g.nodes), "frozen_json": r3.as_ref().ok().map(|s| s.json().to_owned())}),
				);
				return;
			}
			ctx.count("inexpressible_rejected");
		}
	}
}
