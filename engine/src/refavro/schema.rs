//! Reference schema model written from the Avro specification.
//! Nodes live in an arena; node 0 is the root. Named nodes appear once and may be
//! referred to from several places (this is how recursion and sharing are expressed).

use crate::json::J;
use crate::rng::Rng;
use std::collections::{HashMap, HashSet};

pub type Id = usize;

#[derive(Clone, Debug, PartialEq)]
pub enum Logical {
	Decimal { precision: usize, scale: u32 },
	Uuid,
	Date,
	TimeMillis,
	TimeMicros,
	TimestampMillis,
	TimestampMicros,
	Duration,
	BigDecimal,
	Unknown(String),
}
impl Logical {
	pub fn name(&self) -> &str {
		match self {
			Logical::Decimal { .. } => "decimal",
			Logical::Uuid => "uuid",
			Logical::Date => "date",
			Logical::TimeMillis => "time-millis",
			Logical::TimeMicros => "time-micros",
			Logical::TimestampMillis => "timestamp-millis",
			Logical::TimestampMicros => "timestamp-micros",
			Logical::Duration => "duration",
			Logical::BigDecimal => "big-decimal",
			Logical::Unknown(s) => s,
		}
	}
}

#[derive(Clone, Debug, PartialEq)]
pub enum Kind {
	Null,
	Boolean,
	Int,
	Long,
	Float,
	Double,
	Bytes,
	String,
	Array(Id),
	Map(Id),
	Union(Vec<Id>),
	/// name is the fullname
	Record { name: String, fields: Vec<(String, Id)> },
	Enum { name: String, symbols: Vec<String> },
	Fixed { name: String, size: usize },
}

#[derive(Clone, Debug, PartialEq)]
pub struct Node {
	pub kind: Kind,
	pub logical: Option<Logical>,
}

#[derive(Clone, Debug, PartialEq)]
pub struct RSchema {
	pub nodes: Vec<Node>,
}

/// What a node means for the binary encoding, once logical types are taken into account
/// (an annotation that does not fit its underlying type is ignored, as the spec demands).
#[derive(Clone, Debug, PartialEq)]
pub enum Eff {
	Null,
	Boolean,
	Int,
	Long,
	Float,
	Double,
	Bytes,
	String,
	Array(Id),
	Map(Id),
	Union(Vec<Id>),
	Record,
	Enum,
	Fixed(usize),
	DecimalBytes { scale: u32 },
	DecimalFixed { size: usize, scale: u32 },
	BigDecimal,
	Duration,
}

pub fn split_fullname(full: &str) -> (Option<&str>, &str) {
	match full.rfind('.') {
		Some(i) => (Some(&full[..i]), &full[i + 1..]),
		None => (None, full),
	}
}

impl RSchema {
	pub fn node(&self, id: Id) -> &Node {
		&self.nodes[id]
	}
	pub fn fullname(&self, id: Id) -> Option<&str> {
		match &self.nodes[id].kind {
			Kind::Record { name, .. } | Kind::Enum { name, .. } | Kind::Fixed { name, .. } => Some(name),
			_ => None,
		}
	}
	pub fn is_named(&self, id: Id) -> bool {
		self.fullname(id).is_some()
	}
	pub fn children(&self, id: Id) -> Vec<Id> {
		match &self.nodes[id].kind {
			Kind::Array(i) | Kind::Map(i) => vec![*i],
			Kind::Union(v) => v.clone(),
			Kind::Record { fields, .. } => fields.iter().map(|f| f.1).collect(),
			_ => vec![],
		}
	}
	pub fn eff(&self, id: Id) -> Eff {
		let n = &self.nodes[id];
		match (&n.kind, &n.logical) {
			(Kind::Bytes, Some(Logical::Decimal { scale, .. })) => Eff::DecimalBytes { scale: *scale },
			(Kind::Fixed { size, .. }, Some(Logical::Decimal { scale, .. })) => Eff::DecimalFixed {
				size: *size,
				scale: *scale,
			},
			(Kind::Bytes, Some(Logical::BigDecimal)) => Eff::BigDecimal,
			(Kind::Fixed { size: 12, .. }, Some(Logical::Duration)) => Eff::Duration,
			(Kind::Null, _) => Eff::Null,
			(Kind::Boolean, _) => Eff::Boolean,
			(Kind::Int, _) => Eff::Int,
			(Kind::Long, _) => Eff::Long,
			(Kind::Float, _) => Eff::Float,
			(Kind::Double, _) => Eff::Double,
			(Kind::Bytes, _) => Eff::Bytes,
			(Kind::String, _) => Eff::String,
			(Kind::Array(i), _) => Eff::Array(*i),
			(Kind::Map(i), _) => Eff::Map(*i),
			(Kind::Union(v), _) => Eff::Union(v.clone()),
			(Kind::Record { .. }, _) => Eff::Record,
			(Kind::Enum { .. }, _) => Eff::Enum,
			(Kind::Fixed { size, .. }, _) => Eff::Fixed(*size),
		}
	}
	/// The name under which serde_avro_fast documents a union branch: PascalCase type name for
	/// unnamed types (logical type name when one applies), fullname for named types.
	pub fn branch_name(&self, id: Id) -> String {
		let n = &self.nodes[id];
		match (&n.kind, &n.logical) {
			(Kind::Bytes, Some(Logical::Decimal { .. })) => "Decimal".into(),
			(Kind::Bytes, Some(Logical::BigDecimal)) => "BigDecimal".into(),
			(Kind::String, Some(Logical::Uuid)) => "Uuid".into(),
			(Kind::Int, Some(Logical::Date)) => "Date".into(),
			(Kind::Int, Some(Logical::TimeMillis)) => "TimeMillis".into(),
			(Kind::Long, Some(Logical::TimeMicros)) => "TimeMicros".into(),
			(Kind::Long, Some(Logical::TimestampMillis)) => "TimestampMillis".into(),
			(Kind::Long, Some(Logical::TimestampMicros)) => "TimestampMicros".into(),
			(Kind::Fixed { size: 12, .. }, Some(Logical::Duration)) => "Duration".into(),
			(Kind::Null, _) => "Null".into(),
			(Kind::Boolean, _) => "Boolean".into(),
			(Kind::Int, _) => "Int".into(),
			(Kind::Long, _) => "Long".into(),
			(Kind::Float, _) => "Float".into(),
			(Kind::Double, _) => "Double".into(),
			(Kind::Bytes, _) => "Bytes".into(),
			(Kind::String, _) => "String".into(),
			(Kind::Array(_), _) => "Array".into(),
			(Kind::Map(_), _) => "Map".into(),
			(Kind::Union(_), _) => "Union".into(),
			(Kind::Record { name, .. }, _) | (Kind::Enum { name, .. }, _) | (Kind::Fixed { name, .. }, _) => {
				name.clone()
			}
		}
	}

	/// Namespace that is "enclosing" for the children of node `id`, given the one enclosing `id`
	fn child_ns<'a>(&'a self, id: Id, enclosing: Option<&'a str>) -> Option<&'a str> {
		match &self.nodes[id].kind {
			Kind::Record { name, .. } => split_fullname(name).0,
			_ => enclosing,
		}
	}

	// ------------------------------------------------------------ canonical form (spec)

	/// Parsing Canonical Form: definition at first occurrence in depth-first order.
	pub fn pcf(&self) -> String {
		let mut out = String::new();
		let mut seen = HashSet::new();
		self.pcf_rec(0, &mut out, &mut seen);
		out
	}
	fn pcf_rec(&self, id: Id, out: &mut String, seen: &mut HashSet<Id>) {
		let n = &self.nodes[id];
		match &n.kind {
			Kind::Null => out.push_str("\"null\""),
			Kind::Boolean => out.push_str("\"boolean\""),
			Kind::Int => out.push_str("\"int\""),
			Kind::Long => out.push_str("\"long\""),
			Kind::Float => out.push_str("\"float\""),
			Kind::Double => out.push_str("\"double\""),
			Kind::Bytes => out.push_str("\"bytes\""),
			Kind::String => out.push_str("\"string\""),
			Kind::Array(i) => {
				out.push_str("{\"type\":\"array\",\"items\":");
				self.pcf_rec(*i, out, seen);
				out.push('}');
			}
			Kind::Map(i) => {
				out.push_str("{\"type\":\"map\",\"values\":");
				self.pcf_rec(*i, out, seen);
				out.push('}');
			}
			Kind::Union(v) => {
				out.push('[');
				for (k, i) in v.iter().enumerate() {
					if k > 0 {
						out.push(',');
					}
					self.pcf_rec(*i, out, seen);
				}
				out.push(']');
			}
			Kind::Record { name, fields } => {
				if !seen.insert(id) {
					out.push('"');
					out.push_str(name);
					out.push('"');
					return;
				}
				out.push_str("{\"name\":\"");
				out.push_str(name);
				out.push_str("\",\"type\":\"record\",\"fields\":[");
				for (k, (fname, fid)) in fields.iter().enumerate() {
					if k > 0 {
						out.push(',');
					}
					out.push_str("{\"name\":\"");
					out.push_str(fname);
					out.push_str("\",\"type\":");
					self.pcf_rec(*fid, out, seen);
					out.push('}');
				}
				out.push_str("]}");
			}
			Kind::Enum { name, symbols } => {
				if !seen.insert(id) {
					out.push('"');
					out.push_str(name);
					out.push('"');
					return;
				}
				out.push_str("{\"name\":\"");
				out.push_str(name);
				out.push_str("\",\"type\":\"enum\",\"symbols\":[");
				for (k, s) in symbols.iter().enumerate() {
					if k > 0 {
						out.push(',');
					}
					out.push('"');
					out.push_str(s);
					out.push('"');
				}
				out.push_str("]}");
			}
			Kind::Fixed { name, size } => {
				if !seen.insert(id) {
					out.push('"');
					out.push_str(name);
					out.push('"');
					return;
				}
				out.push_str("{\"name\":\"");
				out.push_str(name);
				out.push_str("\",\"type\":\"fixed\",\"size\":");
				out.push_str(&size.to_string());
				out.push('}');
			}
		}
	}

	// ------------------------------------------------------------ spelling (AST -> JSON)

	/// Render as a JSON document. With `rng = None` this is the plain spelling
	/// (definition at first use, inherited namespaces, no extras).
	pub fn spell(&self, rng: Option<&mut Rng>) -> J {
		let mut dummy = Rng::new(0);
		let (rng, fancy) = match rng {
			Some(r) => (r, true),
			None => (&mut dummy, false),
		};
		// choose defining edge per named node
		let plan = if fancy && rng.chance(1, 2) {
			self.random_definition_plan(rng)
		} else {
			None
		};
		// without a full plan, definitions go to the first occurrence in document order, except for
		// occurrences that *must* carry the definition (null-namespace type inside a namespace)
		let plan = plan.or_else(|| Some(self.forced_definition_sites()));
		let mut st = SpellState {
			s: self,
			fancy,
			plan,
			defined: HashSet::new(),
		};
		st.node(0, None, (usize::MAX, 0), rng)
	}

	/// Occurrences (parent, slot) of null-namespace named types that lie inside a namespace: such an
	/// occurrence cannot be a reference, so it has to carry the definition.
	fn forced_definition_sites(&self) -> HashMap<Id, (Id, usize)> {
		let reach = self.reachable();
		let mut unnamed_parent: HashMap<Id, Id> = HashMap::new();
		for &p in &reach {
			for c in self.children(p) {
				if !self.is_named(c) {
					unnamed_parent.insert(c, p);
				}
			}
		}
		let ctx_is_ns = |mut p: Id| -> bool {
			let mut steps = 0;
			loop {
				if let Kind::Record { name, .. } = &self.nodes[p].kind {
					return name.contains('.');
				}
				match unnamed_parent.get(&p) {
					Some(&q) if steps < self.nodes.len() => {
						p = q;
						steps += 1;
					}
					_ => return false,
				}
			}
		};
		let mut out = HashMap::new();
		for &p in &reach {
			for (slot, c) in self.children(p).into_iter().enumerate() {
				if c != 0 && self.fullname(c).map_or(false, |f| !f.contains('.')) && ctx_is_ns(p) {
					out.insert(c, (p, slot));
				}
			}
		}
		out
	}

	/// For each named node pick the edge (parent, slot) that carries its definition; None if
	/// the default (first use in document order) should be used.
	fn random_definition_plan(&self, rng: &mut Rng) -> Option<HashMap<Id, (Id, usize)>> {
		let mut edges: HashMap<Id, Vec<(Id, usize)>> = HashMap::new();
		let reach = self.reachable();
		for &p in &reach {
			for (slot, c) in self.children(p).into_iter().enumerate() {
				if self.is_named(c) {
					edges.entry(c).or_default().push((p, slot));
				}
			}
		}
		// namespace that is "enclosing" for the children of each node (AST-determined: the nearest
		// record above; unnamed nodes have a unique parent)
		let mut unnamed_parent: HashMap<Id, Id> = HashMap::new();
		for &p in &reach {
			for c in self.children(p) {
				if !self.is_named(c) {
					unnamed_parent.insert(c, p);
				}
			}
		}
		let ctx_of = |mut p: Id| -> Option<String> {
			let mut steps = 0;
			loop {
				if let Kind::Record { name, .. } = &self.nodes[p].kind {
					return split_fullname(name).0.map(|s| s.to_owned());
				}
				match unnamed_parent.get(&p) {
					Some(&q) if steps < self.nodes.len() => {
						p = q;
						steps += 1;
					}
					_ => return None,
				}
			}
		};
		for _attempt in 0..4 {
			let mut plan: HashMap<Id, (Id, usize)> = HashMap::new();
			for (&n, es) in &edges {
				if n == 0 {
					continue;
				}
				// a null-namespace type cannot be *referred to* from inside a namespace: an
				// occurrence in such a context has to carry the definition ("namespace": "")
				let null_ns = self.fullname(n).map_or(false, |f| !f.contains('.'));
				let forced: Vec<&(Id, usize)> = if null_ns {
					es.iter().filter(|(p, _)| ctx_of(*p).is_some()).collect()
				} else {
					vec![]
				};
				match forced.len() {
					0 => {
						plan.insert(n, *rng.pick(es));
					}
					1 => {
						plan.insert(n, *forced[0]);
					}
					_ => return None,
				}
			}
			// tree parent of each node
			let mut parent: HashMap<Id, Id> = HashMap::new();
			for &p in &reach {
				for c in self.children(p) {
					if !self.is_named(c) {
						parent.insert(c, p);
					}
				}
			}
			for (&n, &(p, _)) in &plan {
				parent.insert(n, p);
			}
			let ok = reach.iter().all(|&n| {
				let mut cur = n;
				let mut steps = 0;
				while cur != 0 {
					match parent.get(&cur) {
						Some(&p) => cur = p,
						None => return false,
					}
					steps += 1;
					if steps > self.nodes.len() + 1 {
						return false;
					}
				}
				true
			});
			if ok {
				return Some(plan);
			}
		}
		None
	}

	pub fn reachable(&self) -> Vec<Id> {
		let mut seen = vec![false; self.nodes.len()];
		let mut order = vec![];
		let mut stack = vec![0];
		while let Some(n) = stack.pop() {
			if seen[n] {
				continue;
			}
			seen[n] = true;
			order.push(n);
			let mut ch = self.children(n);
			ch.reverse();
			stack.extend(ch);
		}
		order
	}

	/// true when the plain spelling defines every name before its use (spec-conforming order)
	pub fn has_names(&self) -> bool {
		self.reachable().iter().any(|&n| self.is_named(n))
	}
}

struct SpellState<'a> {
	s: &'a RSchema,
	fancy: bool,
	plan: Option<HashMap<Id, (Id, usize)>>,
	defined: HashSet<Id>,
}

/// a String built the way programs build them: with capacity to spare (whoever keeps pointers into it must not
/// shrink or move it afterwards)
fn roomy(x: &str) -> String {
	let mut s = String::with_capacity(x.len() + 40);
	s.push_str(x);
	s
}

fn extras(rng: &mut Rng, kv: &mut Vec<(String, J)>, is_field: bool) {
	// attributes a parser must tolerate and preserve
	let n = rng.below(3);
	for _ in 0..n {
		let (k, v): (&str, J) = match rng.below(8) {
			0 => ("doc", J::s("some \"doc\" \\ text\nline")),
			1 => ("aliases", J::Arr(vec![J::s("OldName"), J::s("a.b.Older")])),
			2 if is_field => ("default", J::Null),
			2 => ("x-custom", J::Obj(vec![("k".into(), J::Arr(vec![J::n(1), J::Bool(true)]))])),
			3 if is_field => ("order", J::s("descending")),
			3 => ("meta", J::n(42)),
			4 => ("unknown_key", J::s("type")),
			// a string that ends in a backslash, and one with runs of spaces and quotes inside: what a hand-written
			// scanner of string literals gets wrong
			5 => ("doc", J::s("exported from C:\\exports\\")),
			6 => ("note", J::s("two  spaces,\ttab and a \" quote \\\" inside")),
			_ => ("doc", J::s("é∂ unicode ☃")),
		};
		// (an object never gets the same key twice: what that would mean is not specified anywhere)
		if kv.iter().all(|(kk, _)| kk != k) {
			kv.push((k.to_owned(), v));
		}
	}
}

impl<'a> SpellState<'a> {
	fn node(&mut self, id: Id, enclosing: Option<&str>, edge: (Id, usize), rng: &mut Rng) -> J {
		let n = &self.s.nodes[id];
		let prim = |name: &str, me: &Self, rng: &mut Rng| -> J {
			match &n.logical {
				None => {
					if me.fancy && rng.chance(1, 4) {
						let mut kv = vec![("type".to_string(), J::s(name))];
						if rng.chance(1, 3) {
							extras(rng, &mut kv, false);
						}
						J::Obj(kv)
					} else {
						J::s(name)
					}
				}
				Some(l) => {
					let mut kv = vec![("type".to_string(), J::s(name))];
					logical_attrs(l, &mut kv, me.fancy, rng);
					if me.fancy {
						rng.shuffle(&mut kv);
					}
					J::Obj(kv)
				}
			}
		};
		match &n.kind {
			Kind::Null => prim("null", self, rng),
			Kind::Boolean => prim("boolean", self, rng),
			Kind::Int => prim("int", self, rng),
			Kind::Long => prim("long", self, rng),
			Kind::Float => prim("float", self, rng),
			Kind::Double => prim("double", self, rng),
			Kind::Bytes => prim("bytes", self, rng),
			Kind::String => prim("string", self, rng),
			Kind::Array(i) => {
				let mut kv = vec![
					("type".to_string(), J::s("array")),
					("items".to_string(), self.node(*i, enclosing, (id, 0), rng)),
				];
				if let Some(l) = &n.logical {
					logical_attrs(l, &mut kv, self.fancy, rng);
				}
				if self.fancy {
					if rng.chance(1, 4) {
						extras(rng, &mut kv, false);
					}
					// NB: children must be spelled in document order for definition-before-use;
					// key order of *this* object changes text order only between items and
					// attributes without nested definitions, so shuffling is harmless here.
					rng.shuffle(&mut kv);
				}
				J::Obj(kv)
			}
			Kind::Map(i) => {
				let mut kv = vec![
					("type".to_string(), J::s("map")),
					("values".to_string(), self.node(*i, enclosing, (id, 0), rng)),
				];
				if let Some(l) = &n.logical {
					logical_attrs(l, &mut kv, self.fancy, rng);
				}
				if self.fancy {
					if rng.chance(1, 4) {
						extras(rng, &mut kv, false);
					}
					rng.shuffle(&mut kv);
				}
				J::Obj(kv)
			}
			Kind::Union(v) => J::Arr(
				v.iter()
					.enumerate()
					.map(|(slot, i)| self.node(*i, enclosing, (id, slot), rng))
					.collect(),
			),
			Kind::Record { .. } | Kind::Enum { .. } | Kind::Fixed { .. } => self.named(id, enclosing, edge, rng),
		}
	}

	fn named(&mut self, id: Id, enclosing: Option<&str>, edge: (Id, usize), rng: &mut Rng) -> J {
		let n = &self.s.nodes[id];
		let full = self.s.fullname(id).unwrap().to_owned();
		let (ns, short) = split_fullname(&full);
		let define_here = if self.defined.contains(&id) {
			false
		} else {
			match self.plan.as_ref().and_then(|p| p.get(&id)) {
				Some(e) if id != 0 => *e == edge,
				_ => true,
			}
		};
		if !define_here {
			// reference
			return if ns == enclosing {
				if self.fancy && ns.is_some() && rng.coin() {
					J::s(&full)
				} else {
					J::s(short)
				}
			} else {
				// generator guarantees ns is Some here (a null-namespace name cannot be referred
				// to from inside a namespace)
				J::s(&full)
			};
		}
		self.defined.insert(id);
		let mut kv: Vec<(String, J)> = Vec::new();
		// name / namespace
		let mut name_kv: Vec<(String, J)> = Vec::new();
		if ns == enclosing {
			match (self.fancy, ns) {
				(true, Some(nsv)) => match rng.below(4) {
					0 => name_kv.push(("name".into(), J::s(&full))),
					1 => {
						name_kv.push(("name".into(), J::s(short)));
						name_kv.push(("namespace".into(), J::s(nsv)));
					}
					2 => {
						// dotted name wins over a contradicting namespace attribute
						name_kv.push(("name".into(), J::s(&full)));
						name_kv.push(("namespace".into(), J::s("ignored.ns")));
					}
					_ => name_kv.push(("name".into(), J::s(short))),
				},
				(true, None) => {
					name_kv.push(("name".into(), J::s(short)));
					if rng.chance(1, 3) {
						name_kv.push(("namespace".into(), J::s("")));
					}
				}
				_ => name_kv.push(("name".into(), J::s(short))),
			}
		} else {
			match ns {
				None => {
					name_kv.push(("name".into(), J::s(short)));
					name_kv.push(("namespace".into(), J::s("")));
				}
				Some(nsv) => {
					if self.fancy && rng.coin() {
						name_kv.push(("name".into(), J::s(short)));
						name_kv.push(("namespace".into(), J::s(nsv)));
					} else {
						name_kv.push(("name".into(), J::s(&full)));
						if self.fancy && rng.chance(1, 4) {
							name_kv.push(("namespace".into(), J::s("other.ignored")));
						}
					}
				}
			}
		}
		match &n.kind {
			Kind::Record { fields, .. } => {
				kv.push(("type".into(), J::s("record")));
				kv.extend(name_kv);
				let child_ns = self.s.child_ns(id, enclosing).map(|s| s.to_owned());
				let mut fs = Vec::new();
				for (slot, (fname, fid)) in fields.iter().enumerate() {
					let mut fkv = vec![
						("name".to_string(), J::s(fname)),
						(
							"type".to_string(),
							self.node(*fid, child_ns.as_deref(), (id, slot), rng),
						),
					];
					if self.fancy {
						if rng.chance(1, 4) {
							extras(rng, &mut fkv, true);
						}
						rng.shuffle(&mut fkv);
					}
					fs.push(J::Obj(fkv));
				}
				kv.push(("fields".into(), J::Arr(fs)));
			}
			Kind::Enum { symbols, .. } => {
				kv.push(("type".into(), J::s("enum")));
				kv.extend(name_kv);
				kv.push(("symbols".into(), J::Arr(symbols.iter().map(|s| J::s(s)).collect())));
				if self.fancy && rng.chance(1, 4) && !symbols.is_empty() {
					kv.push(("default".into(), J::s(&symbols[0])));
				}
			}
			Kind::Fixed { size, .. } => {
				kv.push(("type".into(), J::s("fixed")));
				kv.extend(name_kv);
				kv.push(("size".into(), J::n(size)));
			}
			_ => unreachable!(),
		}
		if let Some(l) = &n.logical {
			logical_attrs(l, &mut kv, self.fancy, rng);
		}
		if self.fancy {
			if rng.chance(1, 3) {
				extras(rng, &mut kv, false);
			}
			rng.shuffle(&mut kv);
		}
		J::Obj(kv)
	}
}

fn logical_attrs(l: &Logical, kv: &mut Vec<(String, J)>, fancy: bool, rng: &mut Rng) {
	kv.push(("logicalType".into(), J::s(l.name())));
	if let Logical::Decimal { precision, scale } = l {
		kv.push(("precision".into(), J::n(precision)));
		// the spec makes scale optional (default 0)
		if !(fancy && *scale == 0 && rng.coin()) {
			kv.push(("scale".into(), J::n(scale)));
		}
	}
}

// ------------------------------------------------------------ resolver (JSON -> AST), spec rules

#[derive(Debug)]
pub struct ResolveError(pub String);

pub fn resolve(doc: &J) -> Result<RSchema, ResolveError> {
	let mut st = Resolver {
		nodes: Vec::new(),
		names: HashMap::new(),
		pending: Vec::new(),
	};
	st.node(doc, None)?;
	// late binding of forward references
	let pend = std::mem::take(&mut st.pending);
	for (holder, slot, full) in pend {
		let target = *st
			.names
			.get(&full)
			.ok_or_else(|| ResolveError(format!("unknown reference {full}")))?;
		match &mut st.nodes[holder].kind {
			Kind::Array(i) | Kind::Map(i) => *i = target,
			Kind::Union(v) => v[slot] = target,
			Kind::Record { fields, .. } => fields[slot].1 = target,
			_ => unreachable!(),
		}
	}
	Ok(RSchema { nodes: st.nodes })
}

struct Resolver {
	nodes: Vec<Node>,
	names: HashMap<String, Id>,
	pending: Vec<(Id, usize, String)>,
}

enum Res {
	Node(Id),
	Forward(String),
}

fn prim_kind(s: &str) -> Option<Kind> {
	Some(match s {
		"null" => Kind::Null,
		"boolean" => Kind::Boolean,
		"int" => Kind::Int,
		"long" => Kind::Long,
		"float" => Kind::Float,
		"double" => Kind::Double,
		"bytes" => Kind::Bytes,
		"string" => Kind::String,
		_ => return None,
	})
}

impl Resolver {
	fn child(&mut self, holder: Id, slot: usize, j: &J, ns: Option<&str>) -> Result<Id, ResolveError> {
		match self.res(j, ns)? {
			Res::Node(i) => Ok(i),
			Res::Forward(full) => {
				self.pending.push((holder, slot, full));
				Ok(usize::MAX)
			}
		}
	}
	fn node(&mut self, j: &J, ns: Option<&str>) -> Result<Id, ResolveError> {
		match self.res(j, ns)? {
			Res::Node(i) => Ok(i),
			Res::Forward(f) => Err(ResolveError(format!("root is an unresolved reference {f}"))),
		}
	}
	fn res(&mut self, j: &J, ns: Option<&str>) -> Result<Res, ResolveError> {
		match j {
			J::Str(s) => {
				if let Some(k) = prim_kind(s) {
					self.nodes.push(Node { kind: k, logical: None });
					return Ok(Res::Node(self.nodes.len() - 1));
				}
				let full = if s.contains('.') {
					s.trim_start_matches('.').to_owned()
				} else {
					match ns {
						Some(n) => format!("{n}.{s}"),
						None => s.clone(),
					}
				};
				match self.names.get(&full) {
					Some(&i) => Ok(Res::Node(i)),
					None => Ok(Res::Forward(full)),
				}
			}
			J::Arr(vs) => {
				let id = self.nodes.len();
				self.nodes.push(Node {
					kind: Kind::Union(vec![usize::MAX; vs.len()]),
					logical: None,
				});
				for (slot, v) in vs.iter().enumerate() {
					let c = self.child(id, slot, v, ns)?;
					if let Kind::Union(u) = &mut self.nodes[id].kind {
						u[slot] = c;
					}
				}
				Ok(Res::Node(id))
			}
			J::Obj(_) => {
				let ty = j
					.get("type")
					.and_then(|t| t.as_str())
					.ok_or_else(|| ResolveError("object without string type".into()))?;
				let logical = match j.get("logicalType").and_then(|l| l.as_str()) {
					None => None,
					Some("decimal") => {
						let p = j
							.get("precision")
							.and_then(num_usize)
							.ok_or_else(|| ResolveError("decimal without precision".into()))?;
						let sc = j.get("scale").and_then(num_usize).unwrap_or(0) as u32;
						Some(Logical::Decimal {
							precision: p,
							scale: sc,
						})
					}
					Some("uuid") => Some(Logical::Uuid),
					Some("date") => Some(Logical::Date),
					Some("time-millis") => Some(Logical::TimeMillis),
					Some("time-micros") => Some(Logical::TimeMicros),
					Some("timestamp-millis") => Some(Logical::TimestampMillis),
					Some("timestamp-micros") => Some(Logical::TimestampMicros),
					Some("duration") => Some(Logical::Duration),
					Some("big-decimal") => Some(Logical::BigDecimal),
					Some(o) => Some(Logical::Unknown(o.to_owned())),
				};
				if let Some(k) = prim_kind(ty) {
					self.nodes.push(Node { kind: k, logical });
					return Ok(Res::Node(self.nodes.len() - 1));
				}
				let id = self.nodes.len();
				self.nodes.push(Node {
					kind: Kind::Null,
					logical: None,
				});
				let named = |me: &mut Self| -> Result<String, ResolveError> {
					let name = j
						.get("name")
						.and_then(|n| n.as_str())
						.ok_or_else(|| ResolveError("named type without name".into()))?;
					let full = if name.contains('.') {
						name.trim_start_matches('.').to_owned()
					} else {
						let nsx = match j.get("namespace").and_then(|n| n.as_str()) {
							Some("") => None,
							Some(x) => Some(x),
							None => ns,
						};
						match nsx {
							Some(n) => format!("{n}.{name}"),
							None => name.to_owned(),
						}
					};
					if me.names.insert(full.clone(), id).is_some() {
						return Err(ResolveError(format!("duplicate definition of {full}")));
					}
					Ok(full)
				};
				let kind = match ty {
					"array" => {
						let items = j.get("items").ok_or_else(|| ResolveError("array without items".into()))?;
						self.nodes[id].kind = Kind::Array(usize::MAX);
						let c = self.child(id, 0, items, ns)?;
						Kind::Array(c)
					}
					"map" => {
						let values = j.get("values").ok_or_else(|| ResolveError("map without values".into()))?;
						self.nodes[id].kind = Kind::Map(usize::MAX);
						let c = self.child(id, 0, values, ns)?;
						Kind::Map(c)
					}
					"enum" => {
						let name = named(self)?;
						let symbols = match j.get("symbols") {
							Some(J::Arr(v)) => v
								.iter()
								.map(|s| s.as_str().map(|s| s.to_owned()))
								.collect::<Option<Vec<_>>>()
								.ok_or_else(|| ResolveError("bad symbols".into()))?,
							_ => return Err(ResolveError("enum without symbols".into())),
						};
						Kind::Enum { name, symbols }
					}
					"fixed" => {
						let name = named(self)?;
						let size = j
							.get("size")
							.and_then(num_usize)
							.ok_or_else(|| ResolveError("fixed without size".into()))?;
						Kind::Fixed { name, size }
					}
					"record" => {
						let name = named(self)?;
						let fields_j = match j.get("fields") {
							Some(J::Arr(v)) => v,
							_ => return Err(ResolveError("record without fields".into())),
						};
						let rns = split_fullname(&name).0.map(|s| s.to_owned());
						self.nodes[id].kind = Kind::Record {
							name: name.clone(),
							fields: fields_j
								.iter()
								.map(|_| (String::new(), usize::MAX))
								.collect(),
						};
						let mut fields = Vec::new();
						for (slot, f) in fields_j.iter().enumerate() {
							let fname = f
								.get("name")
								.and_then(|n| n.as_str())
								.ok_or_else(|| ResolveError("field without name".into()))?;
							let fty = f.get("type").ok_or_else(|| ResolveError("field without type".into()))?;
							let c = self.child(id, slot, fty, rns.as_deref())?;
							fields.push((fname.to_owned(), c));
						}
						Kind::Record { name, fields }
					}
					other => return Err(ResolveError(format!("unknown type {other}"))),
				};
				// keep pending slots consistent: rewrite kind but preserve forward markers
				self.nodes[id] = Node { kind, logical };
				Ok(Res::Node(id))
			}
			_ => Err(ResolveError("schema must be string, array or object".into())),
		}
	}
}

fn num_usize(j: &J) -> Option<usize> {
	match j {
		J::Num(n) => n.parse::<usize>().ok(),
		_ => None,
	}
}

// ------------------------------------------------------------ graph equivalence

/// Unfolding equivalence (bisimulation) of two schema graphs: same kinds, names, field
/// names/order, symbols, sizes, logical annotations, and equivalent children.
pub fn bisimilar(a: &RSchema, b: &RSchema) -> Result<(), String> {
	let mut assumed: HashSet<(Id, Id)> = HashSet::new();
	bisim_rec(a, 0, b, 0, &mut assumed, &mut String::from("$"))
}

fn bisim_rec(
	a: &RSchema,
	x: Id,
	b: &RSchema,
	y: Id,
	assumed: &mut HashSet<(Id, Id)>,
	path: &mut String,
) -> Result<(), String> {
	if x >= a.nodes.len() || y >= b.nodes.len() {
		return Err(format!("{path}: dangling id {x} / {y}"));
	}
	if !assumed.insert((x, y)) {
		return Ok(());
	}
	let (na, nb) = (&a.nodes[x], &b.nodes[y]);
	if na.logical != nb.logical {
		return Err(format!("{path}: logical {:?} vs {:?}", na.logical, nb.logical));
	}
	let l = path.len();
	let r = match (&na.kind, &nb.kind) {
		(Kind::Array(i), Kind::Array(j)) => {
			path.push_str(".items");
			bisim_rec(a, *i, b, *j, assumed, path)
		}
		(Kind::Map(i), Kind::Map(j)) => {
			path.push_str(".values");
			bisim_rec(a, *i, b, *j, assumed, path)
		}
		(Kind::Union(u), Kind::Union(v)) => {
			if u.len() != v.len() {
				return Err(format!("{path}: union arity {} vs {}", u.len(), v.len()));
			}
			for (k, (i, j)) in u.iter().zip(v).enumerate() {
				path.push_str(&format!("[{k}]"));
				bisim_rec(a, *i, b, *j, assumed, path)?;
				path.truncate(l);
			}
			Ok(())
		}
		(
			Kind::Record { name: n1, fields: f1 },
			Kind::Record { name: n2, fields: f2 },
		) => {
			if n1 != n2 {
				return Err(format!("{path}: record name {n1} vs {n2}"));
			}
			if f1.len() != f2.len() {
				return Err(format!("{path}: field count {} vs {}", f1.len(), f2.len()));
			}
			for ((fa, i), (fb, j)) in f1.iter().zip(f2) {
				if fa != fb {
					return Err(format!("{path}: field name {fa} vs {fb}"));
				}
				path.push_str(&format!(".{fa}"));
				bisim_rec(a, *i, b, *j, assumed, path)?;
				path.truncate(l);
			}
			Ok(())
		}
		(ka, kb) if ka == kb => Ok(()),
		(ka, kb) => Err(format!("{path}: {ka:?} vs {kb:?}")),
	};
	path.truncate(l);
	r
}

// ------------------------------------------------------------ bridge to the crate's builder API

use serde_avro_fast::schema as cs;

fn to_crate_logical(l: &Logical) -> cs::LogicalType {
	match l {
		Logical::Decimal { precision, scale } => cs::LogicalType::Decimal(cs::Decimal::new(*scale, *precision)),
		Logical::Uuid => cs::LogicalType::Uuid,
		Logical::Date => cs::LogicalType::Date,
		Logical::TimeMillis => cs::LogicalType::TimeMillis,
		Logical::TimeMicros => cs::LogicalType::TimeMicros,
		Logical::TimestampMillis => cs::LogicalType::TimestampMillis,
		Logical::TimestampMicros => cs::LogicalType::TimestampMicros,
		Logical::Duration => cs::LogicalType::Duration,
		Logical::BigDecimal => cs::LogicalType::BigDecimal,
		Logical::Unknown(s) => cs::LogicalType::Unknown(cs::UnknownLogicalType::new(s.clone())),
	}
}

impl RSchema {
	/// Build the same graph through serde_avro_fast's public node API (same indices)
	pub fn to_schema_mut(&self) -> cs::SchemaMut {
		let k = cs::SchemaKey::from_idx;
		let nodes = self
			.nodes
			.iter()
			.map(|n| {
				let t = match &n.kind {
					Kind::Null => cs::RegularType::Null,
					Kind::Boolean => cs::RegularType::Boolean,
					Kind::Int => cs::RegularType::Int,
					Kind::Long => cs::RegularType::Long,
					Kind::Float => cs::RegularType::Float,
					Kind::Double => cs::RegularType::Double,
					Kind::Bytes => cs::RegularType::Bytes,
					Kind::String => cs::RegularType::String,
					Kind::Array(i) => cs::RegularType::Array(cs::Array::new(k(*i))),
					Kind::Map(i) => cs::RegularType::Map(cs::Map::new(k(*i))),
					Kind::Union(v) => cs::RegularType::Union(cs::Union::new(v.iter().map(|i| k(*i)).collect())),
					Kind::Record { name, fields } => cs::RegularType::Record(cs::Record::new(
						cs::Name::from_fully_qualified_name(name.clone()),
						fields
							.iter()
							.map(|(f, i)| cs::RecordField::new(roomy(f), k(*i)))
							.collect(),
					)),
					Kind::Enum { name, symbols } => cs::RegularType::Enum(cs::Enum::new(
						cs::Name::from_fully_qualified_name(name.clone()),
						symbols.iter().map(|x| roomy(x)).collect(),
					)),
					Kind::Fixed { name, size } => cs::RegularType::Fixed(cs::Fixed::new(
						cs::Name::from_fully_qualified_name(name.clone()),
						*size,
					)),
				};
				match &n.logical {
					None => cs::SchemaNode::new(t),
					Some(l) => cs::SchemaNode::with_logical_type(t, to_crate_logical(l)),
				}
			})
			.collect();
		cs::SchemaMut::from_nodes(nodes)
	}

	/// Read back a graph from the crate's editable representation (public accessors only)
	pub fn from_schema_mut(sm: &cs::SchemaMut) -> RSchema {
		let nodes = sm
			.nodes()
			.iter()
			.map(|n| {
				let kind = match &n.type_ {
					cs::RegularType::Null => Kind::Null,
					cs::RegularType::Boolean => Kind::Boolean,
					cs::RegularType::Int => Kind::Int,
					cs::RegularType::Long => Kind::Long,
					cs::RegularType::Float => Kind::Float,
					cs::RegularType::Double => Kind::Double,
					cs::RegularType::Bytes => Kind::Bytes,
					cs::RegularType::String => Kind::String,
					cs::RegularType::Array(a) => Kind::Array(a.items.idx()),
					cs::RegularType::Map(m) => Kind::Map(m.values.idx()),
					cs::RegularType::Union(u) => Kind::Union(u.variants.iter().map(|k| k.idx()).collect()),
					cs::RegularType::Record(r) => Kind::Record {
						name: r.name.fully_qualified_name().to_owned(),
						fields: r.fields.iter().map(|f| (f.name.clone(), f.type_.idx())).collect(),
					},
					cs::RegularType::Enum(e) => Kind::Enum {
						name: e.name.fully_qualified_name().to_owned(),
						symbols: e.symbols.clone(),
					},
					cs::RegularType::Fixed(f) => Kind::Fixed {
						name: f.name.fully_qualified_name().to_owned(),
						size: f.size,
					},
				};
				let logical = n.logical_type.as_ref().map(|l| match l {
					cs::LogicalType::Decimal(d) => Logical::Decimal {
						precision: d.precision,
						scale: d.scale,
					},
					cs::LogicalType::Uuid => Logical::Uuid,
					cs::LogicalType::Date => Logical::Date,
					cs::LogicalType::TimeMillis => Logical::TimeMillis,
					cs::LogicalType::TimeMicros => Logical::TimeMicros,
					cs::LogicalType::TimestampMillis => Logical::TimestampMillis,
					cs::LogicalType::TimestampMicros => Logical::TimestampMicros,
					cs::LogicalType::Duration => Logical::Duration,
					cs::LogicalType::BigDecimal => Logical::BigDecimal,
					other => Logical::Unknown(other.as_str().to_owned()),
				});
				Node { kind, logical }
			})
			.collect();
		RSchema { nodes }
	}
}

// ------------------------------------------------------------ CRC-64-AVRO, bitwise from the spec

pub const EMPTY64: u64 = 0xc15d213aa4d7a795;

pub fn crc64_avro(data: &[u8]) -> u64 {
	let mut fp = EMPTY64;
	for &b in data {
		fp = crc64_step_bitwise(fp, b);
	}
	fp
}

/// One byte of the fingerprint, computed bit by bit (no table):
/// fp = (fp >>> 8) ^ table[(fp ^ b) & 0xff] with table[i] = 8 rounds of
/// (x >>> 1) ^ (EMPTY & -(x & 1)) -- unrolled here on the combined value.
pub fn crc64_step_bitwise(fp: u64, b: u8) -> u64 {
	let idx = (fp ^ b as u64) & 0xff;
	let mut t = idx;
	for _ in 0..8 {
		t = (t >> 1) ^ (EMPTY64 & (0u64.wrapping_sub(t & 1)));
	}
	(fp >> 8) ^ t
}

pub fn crc32_ieee(data: &[u8]) -> u32 {
	let mut crc = 0xFFFF_FFFFu32;
	for &b in data {
		crc ^= b as u32;
		for _ in 0..8 {
			crc = (crc >> 1) ^ (0xEDB8_8320 & 0u32.wrapping_sub(crc & 1));
		}
	}
	!crc
}
