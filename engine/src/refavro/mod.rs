pub mod container;
pub mod expect;
pub mod schema;
pub mod value;
