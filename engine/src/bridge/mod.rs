pub mod collect;
pub mod present;
