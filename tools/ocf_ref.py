#!/usr/bin/env python3
"""Independent (python3 stdlib only) un-framing of an Avro object container file.
usage: ocf_ref.py <file>   -> JSON on stdout: {"ok":bool,"error":..,"codec":..,"meta_keys":[..],"sync":hex,"blocks":[{"count":n,"size":n,"raw_len":n,"crc32":n}]}
Decompression: deflate = zlib raw (wbits=-15), bzip2 = bz2, xz = lzma FORMAT_XZ; snappy / zstandard payloads are not decoded here."""
import sys, json, zlib, bz2, lzma

def varint(b, i):
    shift = 0; u = 0
    while True:
        if i >= len(b): raise ValueError("eof in varint")
        c = b[i]; i += 1
        u |= (c & 0x7f) << shift; shift += 7
        if not c & 0x80: break
        if shift > 70: raise ValueError("varint too long")
    return (u >> 1) ^ -(u & 1), i

def main(path):
    b = open(path, 'rb').read()
    out = {"ok": False}
    try:
        if b[:4] != b'Obj\x01': raise ValueError("magic")
        i = 4; meta = {}
        while True:
            n, i = varint(b, i)
            if n == 0: break
            if n < 0:
                n = -n; _, i = varint(b, i)
            for _ in range(n):
                l, i = varint(b, i); k = b[i:i+l].decode('utf-8'); i += l
                l, i = varint(b, i); v = b[i:i+l]; i += l
                if len(v) != l: raise ValueError("eof in metadata")
                meta[k] = v
        sync = b[i:i+16]; i += 16
        if len(sync) != 16: raise ValueError("eof in sync")
        codec = meta.get('avro.codec', b'null').decode()
        blocks = []
        while i < len(b):
            cnt, i = varint(b, i); sz, i = varint(b, i)
            if cnt < 0 or sz < 0: raise ValueError("negative count/size")
            data = b[i:i+sz]; i += sz
            if len(data) != sz: raise ValueError("eof in block data")
            if b[i:i+16] != sync: raise ValueError("sync mismatch")
            i += 16
            if codec == 'null': raw = data
            elif codec == 'deflate':
                d = zlib.decompressobj(-15); raw = d.decompress(data) + d.flush()
                if not d.eof: raise ValueError("deflate stream not terminated")
                if d.unused_data: raise ValueError("bytes after deflate stream")
            elif codec == 'bzip2':
                d = bz2.BZ2Decompressor(); raw = d.decompress(data)
                if not d.eof: raise ValueError("bzip2 stream not terminated")
                if d.unused_data: raise ValueError("bytes after bzip2 stream")
            elif codec == 'xz':
                d = lzma.LZMADecompressor(format=lzma.FORMAT_XZ); raw = d.decompress(data)
                if not d.eof: raise ValueError("xz stream not terminated")
                if d.unused_data: raise ValueError("bytes after xz stream")
            else:
                raw = None
            blocks.append({"count": cnt, "size": sz, "raw_len": None if raw is None else len(raw), "crc32": None if raw is None else zlib.crc32(raw) & 0xffffffff})
        out.update(ok=True, codec=codec, meta_keys=sorted(meta.keys()), sync=sync.hex(), blocks=blocks, schema_len=len(meta.get('avro.schema', b'')))
    except Exception as e:
        out["error"] = repr(e)
    print(json.dumps(out))

if __name__ == '__main__':
    main(sys.argv[1])
