pub mod expect;
pub mod schema;
pub mod value;
