//! Reference expectation: which logical Avro value a tree of serde calls denotes under a schema
//! node, or that no such value exists (the serializer must then fail), or that the statement
//! does not pin the outcome.

use super::schema::*;
use super::value::{min_twos_complement, Val};
use crate::bridge::call::Call;
use crate::bridge::present::parse_decimal_string;
use crate::gen::value::MANTISSA_96_MAX;

#[derive(Clone, Debug, PartialEq)]
pub enum Expect {
	/// Ok is allowed only with bytes decoding to one of these
	AnyOf(Vec<Val>),
	/// S cannot represent the presented value: Ok is a violation
	MustErr(&'static str),
	/// outcome not pinned; if Ok, the bytes must still be a complete valid encoding
	Unspecified,
	/// like AnyOf, but reaching it needs a lossy policy step (rounding): reported under its own signature
	Lossy(Val, &'static str),
}

fn exact(v: Val) -> Expect {
	Expect::AnyOf(vec![v])
}

pub struct Opts {
	pub allow_slow_seq_to_bytes: bool,
}

fn int_expect(c: &Call, lo: i128, hi: i128, mk: impl Fn(i128) -> Val) -> Expect {
	match c.as_int() {
		Some(n) if n >= lo && n <= hi => exact(mk(n)),
		Some(_) => Expect::MustErr("integer out of range"),
		None if c.is_int() => Expect::MustErr("integer out of range"), // u128 above i128
		None => Expect::Unspecified,
	}
}

fn u8_elems(xs: &[Call]) -> Option<Result<Vec<u8>, ()>> {
	// Some(Ok(bytes)) all ints in range, Some(Err) some int out of u8 range, None: non-integer element
	let mut out = Vec::new();
	let mut oor = false;
	for x in xs {
		if !x.is_int() {
			return None;
		}
		match x.as_int() {
			Some(n) if (0..=255).contains(&n) => out.push(n as u8),
			_ => oor = true,
		}
	}
	Some(if oor { Err(()) } else { Ok(out) })
}

fn seq_parts(c: &Call) -> Option<(Option<usize>, &Vec<Call>)> {
	match c {
		Call::Seq(h, xs) => Some((*h, xs)),
		Call::Tuple(xs) | Call::TupleStruct(_, xs) => Some((Some(xs.len()), xs)),
		_ => None,
	}
}

fn fits_bytes(v: i128, size: usize) -> bool {
	if size == 0 {
		return v == 0;
	}
	min_twos_complement(v).len() <= size
}

pub fn expect(s: &RSchema, id: Id, c: &Call, o: &Opts) -> Expect {
	// transparent wrappers
	match c {
		Call::Some(inner) => return expect(s, id, inner, o),
		Call::NewtypeStruct(name, inner) => {
			// on a union the name may select a branch; elsewhere it is transparent
			if let Eff::Union(bs) = s.eff(id) {
				return named_branch(s, &bs, name, inner, o).unwrap_or_else(|| expect(s, id, inner, o));
			}
			return expect(s, id, inner, o);
		}
		Call::NewtypeVariant(_, inner) if !matches!(s.eff(id), Eff::Union(_)) => return expect(s, id, inner, o),
		Call::TupleVariant(_, xs) if !matches!(s.eff(id), Eff::Union(_)) => {
			return expect(s, id, &Call::Tuple(xs.clone()), o)
		}
		_ => {}
	}
	match s.eff(id) {
		Eff::Null => match c {
			Call::Unit | Call::None | Call::UnitStruct(_) => exact(Val::Null),
			Call::UnitVariant(_, _, v) if v == "Null" => exact(Val::Null),
			_ => Expect::Unspecified,
		},
		Eff::Boolean => match c {
			Call::Bool(b) => exact(Val::Bool(*b)),
			_ => Expect::Unspecified,
		},
		Eff::Int => int_expect(c, i32::MIN as i128, i32::MAX as i128, |n| Val::Int(n as i32)),
		Eff::Long => int_expect(c, i64::MIN as i128, i64::MAX as i128, |n| Val::Long(n as i64)),
		Eff::Float => match c {
			Call::F32(b) => exact(Val::Float(*b)),
			Call::F64(b) => {
				let f = f64::from_bits(*b);
				let n = f as f32;
				if !f.is_nan() && (n as f64) == f {
					exact(Val::Float(n.to_bits()))
				} else {
					Expect::Unspecified
				}
			}
			_ => Expect::Unspecified,
		},
		Eff::Double => match c {
			Call::F64(b) => exact(Val::Double(*b)),
			Call::F32(b) => {
				let f = f32::from_bits(*b);
				if f.is_nan() {
					Expect::Unspecified
				} else {
					exact(Val::Double((f as f64).to_bits()))
				}
			}
			_ => Expect::Unspecified,
		},
		Eff::String => match c {
			Call::Str(x) => exact(Val::Str(x.clone())),
			Call::Char(ch) => exact(Val::Str(ch.to_string())),
			Call::Bytes(b) => match std::str::from_utf8(b) {
				Ok(x) => exact(Val::Str(x.to_owned())),
				Err(_) => Expect::MustErr("bytes that are not UTF-8 presented for a string"),
			},
			Call::UnitStruct(n) => exact(Val::Str(n.clone())),
			Call::UnitVariant(_, _, v) => exact(Val::Str(v.clone())),
			_ => Expect::Unspecified,
		},
		Eff::Bytes => match c {
			Call::Bytes(b) => exact(Val::Bytes(b.clone())),
			Call::Str(x) => exact(Val::Bytes(x.as_bytes().to_vec())),
			Call::Char(ch) => exact(Val::Bytes(ch.to_string().into_bytes())),
			Call::UnitStruct(n) => exact(Val::Bytes(n.as_bytes().to_vec())),
			Call::UnitVariant(_, _, v) => exact(Val::Bytes(v.as_bytes().to_vec())),
			_ => match seq_parts(c) {
				Some((hint, xs)) if o.allow_slow_seq_to_bytes => match u8_elems(xs) {
					Some(Ok(b)) => match hint {
						Some(h) if h != b.len() => Expect::MustErr("advertised length differs from the number of elements"),
						_ => exact(Val::Bytes(b)),
					},
					Some(Err(())) => Expect::MustErr("sequence element out of the byte range"),
					None => Expect::Unspecified,
				},
				_ => Expect::Unspecified,
			},
		},
		Eff::Fixed(n) => match c {
			Call::Bytes(b) => {
				if b.len() == n {
					exact(Val::Fixed(b.clone()))
				} else {
					Expect::MustErr("wrong fixed length")
				}
			}
			Call::Str(x) => {
				if x.len() == n {
					exact(Val::Fixed(x.as_bytes().to_vec()))
				} else {
					Expect::MustErr("wrong fixed length")
				}
			}
			_ => match seq_parts(c) {
				Some((hint, xs)) if o.allow_slow_seq_to_bytes => match u8_elems(xs) {
					Some(Ok(b)) => {
						if b.len() == n && hint.map_or(true, |h| h == n) {
							exact(Val::Fixed(b))
						} else {
							Expect::MustErr("wrong fixed length")
						}
					}
					Some(Err(())) => Expect::MustErr("sequence element out of the byte range"),
					None => Expect::Unspecified,
				},
				_ => Expect::Unspecified,
			},
		},
		Eff::Enum => {
			let symbols = match &s.node(id).kind {
				Kind::Enum { symbols, .. } => symbols,
				_ => unreachable!(),
			};
			let by_sym = |x: &str| match symbols.iter().position(|y| y == x) {
				Some(i) => exact(Val::Enum(i)),
				None => Expect::MustErr("enum symbol not in the schema"),
			};
			match c {
				Call::Str(x) => by_sym(x),
				Call::Char(ch) => by_sym(&ch.to_string()),
				Call::UnitVariant(_, _, v) => by_sym(v),
				Call::UnitStruct(n) => by_sym(n),
				_ if c.is_int() => match c.as_int() {
					Some(n) if n >= 0 && (n as usize) < symbols.len() => exact(Val::Enum(n as usize)),
					_ => Expect::MustErr("enum index not in the schema"),
				},
				_ => Expect::Unspecified,
			}
		}
		Eff::Array(item) => match seq_parts(c) {
			Some((hint, xs)) => {
				let mut vals = Vec::new();
				for x in xs {
					match expect(s, item, x, o) {
						Expect::AnyOf(v) if v.len() == 1 => vals.push(v[0].clone()),
						Expect::AnyOf(_) => return Expect::Unspecified,
						other => return other,
					}
				}
				match hint {
					Some(h) if h > xs.len() => Expect::MustErr("fewer elements than advertised"),
					_ => exact(Val::Array(vals)),
				}
			}
			None => Expect::Unspecified,
		},
		Eff::Map(item) => {
			let entries: Vec<(String, &Call)> = match c {
				Call::Map(_, es, _) => {
					let mut out = Vec::new();
					for (k, v) in es {
						match k {
							Call::Str(x) => out.push((x.clone(), v)),
							Call::Char(ch) => out.push((ch.to_string(), v)),
							_ => return Expect::Unspecified,
						}
					}
					out
				}
				Call::Struct(_, fs) | Call::StructVariant(_, fs) => fs.iter().map(|(k, v)| (k.clone(), v)).collect(),
				_ => return Expect::Unspecified,
			};
			let hint = match c {
				Call::Map(h, _, _) => *h,
				Call::Struct(_, fs) | Call::StructVariant(_, fs) => Some(fs.len()),
				_ => None,
			};
			let mut vals = Vec::new();
			for (k, x) in &entries {
				match expect(s, item, x, o) {
					Expect::AnyOf(v) if v.len() == 1 => vals.push((k.clone(), v[0].clone())),
					Expect::AnyOf(_) => return Expect::Unspecified,
					other => return other,
				}
			}
			match hint {
				Some(h) if h > entries.len() => Expect::MustErr("fewer entries than advertised"),
				_ => exact(Val::Map(vals)),
			}
		}
		Eff::Record => {
			let fields = match &s.node(id).kind {
				Kind::Record { fields, .. } => fields,
				_ => unreachable!(),
			};
			let presented: Vec<(String, &Call)> = match c {
				Call::Map(_, es, _) => {
					let mut out = Vec::new();
					for (k, v) in es {
						match k {
							Call::Str(x) => out.push((x.clone(), v)),
							_ => return Expect::Unspecified,
						}
					}
					out
				}
				Call::Struct(_, fs) | Call::StructVariant(_, fs) => fs.iter().filter(|f| f.1 != Call::SkipField).map(|(k, v)| (k.clone(), v)).collect(),
				_ => return Expect::Unspecified,
			};
			let mut slots: Vec<Option<Val>> = vec![None; fields.len()];
			let mut inner_problem: Option<Expect> = None;
			for (k, x) in &presented {
				match fields.iter().position(|f| &f.0 == k) {
					None => return Expect::MustErr("unknown record field"),
					Some(i) => {
						if slots[i].is_some() {
							return Expect::MustErr("duplicated record field");
						}
						match expect(s, fields[i].1, x, o) {
							Expect::AnyOf(v) if v.len() == 1 => slots[i] = Some(v[0].clone()),
							Expect::AnyOf(_) => {
								slots[i] = Some(Val::Null);
								inner_problem.get_or_insert(Expect::Unspecified);
							}
							other => {
								slots[i] = Some(Val::Null);
								inner_problem.get_or_insert(other);
							}
						}
					}
				}
			}
			let mut vals = Vec::new();
			for (i, sl) in slots.into_iter().enumerate() {
				match sl {
					Some(v) => vals.push(v),
					None => match s.eff(fields[i].1) {
						Eff::Null => vals.push(Val::Null),
						Eff::Union(bs) => match bs.iter().position(|&b| matches!(s.eff(b), Eff::Null)) {
							Some(k) => vals.push(Val::Union(k, Box::new(Val::Null))),
							None => return Expect::MustErr("missing record field"),
						},
						_ => return Expect::MustErr("missing record field"),
					},
				}
			}
			if let Some(p) = inner_problem {
				return p;
			}
			exact(Val::Record(vals))
		}
		Eff::Union(bs) => union_expect(s, &bs, c, o),
		Eff::DecimalBytes { scale } => decimal_expect(c, scale, None),
		Eff::DecimalFixed { size, scale } => decimal_expect(c, scale, Some(size)),
		Eff::BigDecimal => match c {
			_ if c.is_int() => match c.as_int() {
				Some(n) if n.unsigned_abs() <= MANTISSA_96_MAX as u128 => exact(Val::BigDecimal(n, 0)),
				_ => Expect::Unspecified,
			},
			Call::Str(x) => match parse_decimal_string(x) {
				Some((u, sc)) if sc <= 28 && u.unsigned_abs() <= MANTISSA_96_MAX as u128 => exact(Val::BigDecimal(u, sc)),
				_ => Expect::Unspecified,
			},
			_ => Expect::Unspecified,
		},
		Eff::Duration => {
			// a component is a number of months / days / milliseconds in 0..2^32: an integer of any width inside that range
			// denotes it (the serializer may still refuse widths it does not take), one outside it cannot be represented
			enum Comp {
				Is(u32),
				OutOfRange,
				NotANumber,
			}
			let comp = |x: &Call| -> Comp {
				if !x.is_int() {
					return Comp::NotANumber;
				}
				match x.as_int() {
					Some(n) if (0..=u32::MAX as i128).contains(&n) => Comp::Is(n as u32),
					_ => Comp::OutOfRange,
				}
			};
			// Ok(values) / Err(Some(MustErr reason)) / Err(None) = unspecified
			let u32s = |xs: &[&Call]| -> Result<Vec<u32>, Option<&'static str>> {
				let mut out = Vec::new();
				let mut unspecified = false;
				for x in xs {
					match comp(x) {
						Comp::Is(v) => out.push(v),
						Comp::OutOfRange => return Err(Some("duration component outside 0..2^32")),
						Comp::NotANumber => unspecified = true,
					}
				}
				if unspecified {
					Err(None)
				} else {
					Ok(out)
				}
			};
			match c {
				Call::Bytes(b) => {
					if b.len() == 12 {
						exact(Val::Duration(
							u32::from_le_bytes(b[0..4].try_into().unwrap()),
							u32::from_le_bytes(b[4..8].try_into().unwrap()),
							u32::from_le_bytes(b[8..12].try_into().unwrap()),
						))
					} else {
						Expect::MustErr("wrong duration length")
					}
				}
				Call::Map(_, es, _) => {
					let mut v = [None; 3];
					for (k, x) in es {
						let idx = match k {
							Call::Str(k) if k == "months" => 0,
							Call::Str(k) if k == "days" => 1,
							Call::Str(k) if k == "milliseconds" => 2,
							_ => return Expect::MustErr("unknown duration field"),
						};
						if v[idx].is_some() {
							return Expect::MustErr("duplicated duration field");
						}
						match comp(x) {
							Comp::Is(n) => v[idx] = Some(n),
							Comp::OutOfRange => return Expect::MustErr("duration component outside 0..2^32"),
							Comp::NotANumber => return Expect::Unspecified,
						}
					}
					match v {
						[Some(a), Some(b), Some(c)] => exact(Val::Duration(a, b, c)),
						_ => Expect::MustErr("missing duration field"),
					}
				}
				Call::Struct(_, fs) | Call::StructVariant(_, fs) => {
					let mut v = [None; 3];
					for (k, x) in fs {
						let idx = match k.as_str() {
							"months" => 0,
							"days" => 1,
							"milliseconds" => 2,
							_ => return Expect::MustErr("unknown duration field"),
						};
						if v[idx].is_some() {
							return Expect::MustErr("duplicated duration field");
						}
						match comp(x) {
							Comp::Is(n) => v[idx] = Some(n),
							Comp::OutOfRange => return Expect::MustErr("duration component outside 0..2^32"),
							Comp::NotANumber => return Expect::Unspecified,
						}
					}
					match v {
						[Some(a), Some(b), Some(c)] => exact(Val::Duration(a, b, c)),
						_ => Expect::MustErr("missing duration field"),
					}
				}
				_ => match seq_parts(c) {
					Some((hint, xs)) => {
						let refs: Vec<&Call> = xs.iter().collect();
						match u32s(&refs) {
							Ok(v) if v.len() == 3 && hint.map_or(true, |h| h == 3) => exact(Val::Duration(v[0], v[1], v[2])),
							Ok(_) => Expect::MustErr("wrong duration length"),
							Err(Some(w)) => Expect::MustErr(w),
							Err(None) => Expect::Unspecified,
						}
					}
					None => Expect::Unspecified,
				},
			}
		}
	}
}

fn decimal_expect(c: &Call, scale: u32, fixed: Option<usize>) -> Expect {
	let fit = |u: i128| -> Expect {
		match fixed {
			Some(size) if size > 16 => Expect::Unspecified,
			Some(size) if !fits_bytes(u, size) => Expect::MustErr("number does not fit the decimal's fixed size"),
			_ => exact(Val::Decimal(u)),
		}
	};
	if c.is_int() {
		return match c.as_int() {
			None => Expect::Unspecified, // u128 beyond i128: outside documented limits
			Some(n) => match 10i128.checked_pow(scale).and_then(|p| n.checked_mul(p)) {
				Some(u) => fit(u),
				None => Expect::Unspecified,
			},
		};
	}
	match c {
		Call::Str(x) => match parse_decimal_string(x) {
			Some((u, sc)) if sc <= 28 && u.unsigned_abs() <= MANTISSA_96_MAX as u128 => {
				if sc <= scale {
					match 10i128.checked_pow(scale - sc).and_then(|p| u.checked_mul(p)) {
						Some(v) if v.unsigned_abs() <= MANTISSA_96_MAX as u128 => fit(v),
						_ => Expect::Unspecified,
					}
				} else {
					let p = 10i128.pow(sc - scale);
					if u % p == 0 {
						fit(u / p)
					} else {
						// the text has more fractional digits than the schema scale: S cannot
						// represent it exactly
						Expect::Lossy(Val::Null, "decimal text has more fractional digits than the schema scale")
					}
				}
			}
			_ => Expect::Unspecified,
		},
		Call::F64(b) => {
			let f = f64::from_bits(*b);
			// judged only on small integers (exactly representable everywhere)
			if f.fract() == 0.0 && f.abs() < 1e9 {
				match 10i128.checked_pow(scale).and_then(|p| (f as i128).checked_mul(p)) {
					Some(u) => fit(u),
					None => Expect::Unspecified,
				}
			} else {
				Expect::Unspecified
			}
		}
		_ => Expect::Unspecified,
	}
}

/// category for the "equally suitable branches" rule
fn twin_cat(s: &RSchema, id: Id) -> u32 {
	match s.eff(id) {
		Eff::Record => 1,
		Eff::Enum => 2,
		Eff::Fixed(n) => 1000 + n as u32,
		Eff::Map(_) => 3,
		_ => 0,
	}
}

fn named_index(s: &RSchema, bs: &[Id], name: &str) -> Option<usize> {
	// a name designates a branch when it is its documented branch name; a short name only when
	// no branch has it as full name and exactly one branch has that short name. A duration's branch name is
	// "Duration": the name of the fixed it annotates is not kept by the frozen schema (recorded finding, C01 probe)
	let mut idx: Vec<usize> = bs
		.iter()
		.enumerate()
		.filter(|(_, &b)| s.branch_name(b) == name)
		.map(|(i, _)| i)
		.collect();
	if idx.is_empty() {
		idx = bs
			.iter()
			.enumerate()
			.filter(|(_, &b)| s.fullname(b).map_or(false, |f| split_fullname(f).1 == name && f != name && s.branch_name(b) == f))
			.map(|(i, _)| i)
			.collect();
	}
	if idx.len() == 1 {
		Some(idx[0])
	} else {
		None
	}
}

fn named_branch(s: &RSchema, bs: &[Id], name: &str, inner: &Call, o: &Opts) -> Option<Expect> {
	let mut idx: Vec<usize> = bs
		.iter()
		.enumerate()
		.filter(|(_, &b)| s.branch_name(b) == name)
		.map(|(i, _)| i)
		.collect();
	if idx.is_empty() {
		idx = bs
			.iter()
			.enumerate()
			.filter(|(_, &b)| s.fullname(b).map_or(false, |f| split_fullname(f).1 == name && f != name && s.branch_name(b) == f))
			.map(|(i, _)| i)
			.collect();
	}
	if idx.len() != 1 {
		return None;
	}
	let i = idx[0];
	Some(match expect(s, bs[i], inner, o) {
		Expect::AnyOf(vs) => Expect::AnyOf(vs.into_iter().map(|v| Val::Union(i, Box::new(v))).collect()),
		Expect::Lossy(v, w) => Expect::Lossy(v, w),
		other => other,
	})
}

fn union_expect(s: &RSchema, bs: &[Id], c: &Call, o: &Opts) -> Expect {
	// explicit selection by name
	match c {
		Call::NewtypeVariant(name, inner) => {
			if let Some(e) = named_branch(s, bs, name, inner, o) {
				return e;
			}
			return union_expect(s, bs, inner, o);
		}
		Call::Struct(name, _) | Call::StructVariant(name, _) => {
			let mut stripped = c.clone();
			if let Call::StructVariant(n, fs) = &stripped {
				stripped = Call::Struct(n.clone(), fs.clone());
			}
			if let Some(e) = named_branch(s, bs, name, &stripped, o) {
				return e;
			}
		}
		Call::UnitVariant(name, _, _) => {
			// a Rust enum named like an Avro enum of the union designates that enum
			if let Some(i) = named_index(s, bs, name) {
				if matches!(s.eff(bs[i]), Eff::Enum) {
					if let Some(e) = named_branch(s, bs, name, c, o) {
						return e;
					}
				}
			}
		}
		Call::TupleVariant(name, xs) => {
			let inner = Call::Tuple(xs.clone());
			if let Some(e) = named_branch(s, bs, name, &inner, o) {
				return e;
			}
			return union_expect(s, bs, &inner, o);
		}
		_ => {}
	}
	// type-directed: every branch under which the call denotes a value is a candidate
	let mut cands: Vec<(usize, Vec<Val>)> = Vec::new();
	let mut must_err: Option<&'static str> = None;
	let mut lossy = None;
	for (i, &b) in bs.iter().enumerate() {
		match expect(s, b, c, o) {
			Expect::AnyOf(vs) => cands.push((i, vs)),
			Expect::MustErr(w) => must_err = Some(w),
			Expect::Lossy(v, w) => lossy = Some((v, w)),
			Expect::Unspecified => {}
		}
	}
	if cands.is_empty() {
		if let Some((v, w)) = lossy {
			return Expect::Lossy(v, w);
		}
		return match must_err {
			Some(w) => Expect::MustErr(w),
			None => Expect::Unspecified,
		};
	}
	// twins: several equally suitable branches of the same named kind (or map+record for an
	// anonymous map)
	// (only when every candidate is such a twin: with a candidate of another kind around - a `string` next to
	// two fixed of the text's length - that one may be the better choice, which this model does not rank)
	if cands.len() >= 2 {
		let cats: Vec<u32> = cands.iter().map(|(i, _)| twin_cat(s, bs[*i])).collect();
		let anonymous_map = matches!(c, Call::Map(..));
		let all_same = cats[0] != 0 && cats[0] != 3 && cats.iter().all(|&x| x == cats[0]);
		let all_map_or_record = anonymous_map && cats.iter().all(|&x| x == 1 || x == 3) && cats.contains(&1) && cats.contains(&3);
		if all_same || all_map_or_record {
			return Expect::MustErr("type-directed union choice with several equally suitable branches");
		}
	}
	Expect::AnyOf(
		cands
			.into_iter()
			.flat_map(|(i, vs)| vs.into_iter().map(move |v| Val::Union(i, Box::new(v))))
			.collect(),
	)
}
