//! `Call`: an explicit tree of serde Serializer calls, so that any presentation of a value
//! (including ill-formed ones) can be shown to the serializer under test.

use super::present::intern;
use serde::ser::{
	Serialize, SerializeMap, SerializeSeq, SerializeStruct, SerializeStructVariant, SerializeTuple,
	SerializeTupleStruct, SerializeTupleVariant, Serializer,
};

#[derive(Clone, Debug, PartialEq)]
pub enum Call {
	Bool(bool),
	I8(i8),
	I16(i16),
	I32(i32),
	I64(i64),
	I128(i128),
	U8(u8),
	U16(u16),
	U32(u32),
	U64(u64),
	U128(u128),
	F32(u32),
	F64(u64),
	Char(char),
	Str(String),
	Bytes(Vec<u8>),
	None,
	Some(Box<Call>),
	Unit,
	UnitStruct(String),
	UnitVariant(String, u32, String),
	NewtypeStruct(String, Box<Call>),
	NewtypeVariant(String, Box<Call>),
	/// advertised length, elements
	Seq(Option<usize>, Vec<Call>),
	Tuple(Vec<Call>),
	TupleStruct(String, Vec<Call>),
	TupleVariant(String, Vec<Call>),
	/// advertised length, entries; `split` = serialize_key + serialize_value instead of serialize_entry
	Map(Option<usize>, Vec<(Call, Call)>, bool),
	/// name, advertised len, fields
	Struct(String, Vec<(String, Call)>),
	StructVariant(String, Vec<(String, Call)>),
	/// as a struct field value: call `skip_field(key)` instead of `serialize_field`
	SkipField,
}

impl Call {
	pub fn kind(&self) -> &'static str {
		match self {
			Call::Bool(_) => "bool",
			Call::I8(_) => "i8",
			Call::I16(_) => "i16",
			Call::I32(_) => "i32",
			Call::I64(_) => "i64",
			Call::I128(_) => "i128",
			Call::U8(_) => "u8",
			Call::U16(_) => "u16",
			Call::U32(_) => "u32",
			Call::U64(_) => "u64",
			Call::U128(_) => "u128",
			Call::F32(_) => "f32",
			Call::F64(_) => "f64",
			Call::Char(_) => "char",
			Call::Str(_) => "str",
			Call::Bytes(_) => "bytes",
			Call::None => "none",
			Call::Some(_) => "some",
			Call::Unit => "unit",
			Call::UnitStruct(_) => "unit_struct",
			Call::UnitVariant(..) => "unit_variant",
			Call::NewtypeStruct(..) => "newtype_struct",
			Call::NewtypeVariant(..) => "newtype_variant",
			Call::Seq(Some(_), _) => "seq",
			Call::Seq(None, _) => "seq_nohint",
			Call::Tuple(_) => "tuple",
			Call::TupleStruct(..) => "tuple_struct",
			Call::TupleVariant(..) => "tuple_variant",
			Call::Map(Some(_), _, false) => "map",
			Call::Map(None, _, false) => "map_nohint",
			Call::Map(_, _, true) => "map_split",
			Call::Struct(..) => "struct",
			Call::StructVariant(..) => "struct_variant",
			Call::SkipField => "skip_field",
		}
	}
	/// integer value if this is an integer call
	pub fn as_int(&self) -> Option<i128> {
		Some(match self {
			Call::I8(v) => *v as i128,
			Call::I16(v) => *v as i128,
			Call::I32(v) => *v as i128,
			Call::I64(v) => *v as i128,
			Call::I128(v) => *v,
			Call::U8(v) => *v as i128,
			Call::U16(v) => *v as i128,
			Call::U32(v) => *v as i128,
			Call::U64(v) => *v as i128,
			Call::U128(v) => i128::try_from(*v).ok()?,
			_ => return None,
		})
	}
	pub fn is_int(&self) -> bool {
		matches!(
			self,
			Call::I8(_)
				| Call::I16(_) | Call::I32(_)
				| Call::I64(_) | Call::I128(_)
				| Call::U8(_) | Call::U16(_)
				| Call::U32(_) | Call::U64(_)
				| Call::U128(_)
		)
	}
	pub fn short(&self) -> String {
		let s = format!("{self:?}");
		if s.chars().count() > 300 {
			format!("{}..", s.chars().take(300).collect::<String>())
		} else {
			s
		}
	}
}

impl Serialize for Call {
	fn serialize<S: Serializer>(&self, ser: S) -> Result<S::Ok, S::Error> {
		match self {
			Call::SkipField => ser.serialize_unit(),
			Call::Bool(v) => ser.serialize_bool(*v),
			Call::I8(v) => ser.serialize_i8(*v),
			Call::I16(v) => ser.serialize_i16(*v),
			Call::I32(v) => ser.serialize_i32(*v),
			Call::I64(v) => ser.serialize_i64(*v),
			Call::I128(v) => ser.serialize_i128(*v),
			Call::U8(v) => ser.serialize_u8(*v),
			Call::U16(v) => ser.serialize_u16(*v),
			Call::U32(v) => ser.serialize_u32(*v),
			Call::U64(v) => ser.serialize_u64(*v),
			Call::U128(v) => ser.serialize_u128(*v),
			Call::F32(b) => ser.serialize_f32(f32::from_bits(*b)),
			Call::F64(b) => ser.serialize_f64(f64::from_bits(*b)),
			Call::Char(c) => ser.serialize_char(*c),
			Call::Str(s) => ser.serialize_str(s),
			Call::Bytes(b) => ser.serialize_bytes(b),
			Call::None => ser.serialize_none(),
			Call::Some(inner) => ser.serialize_some(&**inner),
			Call::Unit => ser.serialize_unit(),
			Call::UnitStruct(n) => ser.serialize_unit_struct(intern(n)),
			Call::UnitVariant(n, i, v) => ser.serialize_unit_variant(intern(n), *i, intern(v)),
			Call::NewtypeStruct(n, inner) => ser.serialize_newtype_struct(intern(n), &**inner),
			Call::NewtypeVariant(v, inner) => ser.serialize_newtype_variant("Enum", 0, intern(v), &**inner),
			Call::Seq(hint, xs) => {
				let mut s = ser.serialize_seq(*hint)?;
				for x in xs {
					s.serialize_element(x)?;
				}
				s.end()
			}
			Call::Tuple(xs) => {
				let mut s = ser.serialize_tuple(xs.len())?;
				for x in xs {
					s.serialize_element(x)?;
				}
				s.end()
			}
			Call::TupleStruct(n, xs) => {
				let mut s = ser.serialize_tuple_struct(intern(n), xs.len())?;
				for x in xs {
					s.serialize_field(x)?;
				}
				s.end()
			}
			Call::TupleVariant(v, xs) => {
				let mut s = ser.serialize_tuple_variant("Enum", 0, intern(v), xs.len())?;
				for x in xs {
					s.serialize_field(x)?;
				}
				s.end()
			}
			Call::Map(hint, es, split) => {
				let mut m = ser.serialize_map(*hint)?;
				for (k, v) in es {
					if *split {
						m.serialize_key(k)?;
						m.serialize_value(v)?;
					} else {
						m.serialize_entry(k, v)?;
					}
				}
				m.end()
			}
			Call::Struct(n, fs) => {
				let mut s = ser.serialize_struct(intern(n), fs.iter().filter(|f| f.1 != Call::SkipField).count())?;
				for (k, v) in fs {
					if *v == Call::SkipField {
						s.skip_field(intern(k))?;
					} else {
						s.serialize_field(intern(k), v)?;
					}
				}
				s.end()
			}
			Call::StructVariant(v, fs) => {
				let mut s = ser.serialize_struct_variant("Enum", 0, intern(v), fs.iter().filter(|f| f.1 != Call::SkipField).count())?;
				for (k, x) in fs {
					if *x == Call::SkipField {
						s.skip_field(intern(k))?;
					} else {
						s.serialize_field(intern(k), x)?;
					}
				}
				s.end()
			}
		}
	}
}
