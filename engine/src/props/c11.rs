//! C11 — slice and streamed input decode identically, however the stream is chunked.

use crate::bridge::collect::{AnySeed, Collect, Stats};
use crate::gen::schema::{gen_schema, shape_hash, SchemaGenCfg};
use crate::gen::value::ValueGen;
use crate::io::ChunkedBufRead;
use crate::refavro::schema::RSchema;
use crate::refavro::value::*;
use crate::rng::Rng;
use crate::run::{Ctx, PropSpec};
use crate::sut::*;
use serde_json::json;
use std::cell::RefCell;

pub const SPEC: PropSpec = PropSpec {
	id: "C11",
	level: "exploration",
	rule: "case = (schema, byte string) where bytes are a valid encoding (random layout, over-long varints injected in half of the cases), a 1-3 byte mutation of one, or random bytes, always followed by a sentinel tail; the slice outcome (Ok value + bytes consumed, or Err) is the reference for every partition of the same bytes into BufRead refills: every constant chunk size 1..len when len <= 64, else {1,2,3,5,7,8,9,16,len-1,len}, plus irregular partitions; targets: typed Collect, deserialize_any, IgnoredAny; the same for single-object input; and for container files (1-7 values of very different sizes, reference writer's random block partition incl. empty blocks, all six codecs, one third damaged: null codec by a bit flip / truncation / deletion anywhere after the header, compressed codecs by truncation anywhere or a bit flip in a block's object count or sync marker): the slice reader's outcome (values delivered, then End or error) is the reference for BufReader capacities 1/7/8192 and 12 chunk schedules: same ending; same values when it ends cleanly; when it ends in an error the values delivered before it by one reader are a prefix of the other's (the slice reader sees a whole block before decoding it); distinct by hash(schema shape, bytes, partition)",
	assumptions: &["equality of error text is not demanded, only Ok/Err, value and consumption"],
	cases: (50_000_000, 4_000_000_000),
	secs: (30, 600),
	required: &["partitions_compared", "agree_ok", "agree_err", "overlong_varint_inputs", "single_object_compared", "container_partitions_compared", "container_intact_files", "container_damaged_files"],
	run_case,
	once: None,
	panics_are_violations: true,
	cpu_kill_secs: 60,
	max_workers: 16,
};

#[derive(Debug, PartialEq)]
enum Out {
	Ok(String, usize),
	Err,
}

#[derive(Clone, Copy, Debug)]
enum Target {
	Typed,
	Any,
	Ignored,
}

fn run_slice(schema: &serde_avro_fast::Schema, rs: &RSchema, bytes: &[u8], t: Target, mo: &ModeOwned) -> (Out, String) {
	let lim = Limits {
		max_seq_size: Some(100_000),
		..Default::default()
	};
	match t {
		Target::Typed => {
			let o = de_slice_val(schema, rs, bytes, &lim, mo);
			match o.res {
				Ok(v) => (Out::Ok(format!("{:?}", v), o.consumed), String::new()),
				Err(e) => (Out::Err, e),
			}
		}
		Target::Any => {
			let o = de_slice_any(schema, bytes, &lim);
			match o.res {
				Ok(v) => (Out::Ok(format!("{:?}", v), o.consumed), String::new()),
				Err(e) => (Out::Err, e),
			}
		}
		Target::Ignored => {
			let (r, used) = de_slice_seed(schema, bytes, &lim, std::marker::PhantomData::<serde::de::IgnoredAny>);
			match r {
				Ok(_) => (Out::Ok(String::new(), used), String::new()),
				Err(e) => (Out::Err, e),
			}
		}
	}
}

fn run_reader(
	schema: &serde_avro_fast::Schema,
	rs: &RSchema,
	bytes: &[u8],
	sched: Vec<usize>,
	t: Target,
	mo: &ModeOwned,
) -> (Out, String, bool) {
	let lim = Limits {
		max_seq_size: Some(100_000),
		..Default::default()
	};
	let mut rd = ChunkedBufRead::new(bytes, sched);
	let stats = RefCell::new(Stats::default());
	let r: Result<String, String> = match t {
		Target::Typed => {
			let m = mo.as_mode(&stats);
			de_reader_seed(schema, &mut rd, &lim, Collect::root(rs, &m)).map(|v| format!("{:?}", v))
		}
		Target::Any => de_reader_seed(schema, &mut rd, &lim, AnySeed { stats: &stats, depth: 0 }).map(|v| format!("{:?}", v)),
		Target::Ignored => {
			de_reader_seed(schema, &mut rd, &lim, std::marker::PhantomData::<serde::de::IgnoredAny>).map(|_| String::new())
		}
	};
	match r {
		Ok(v) => (Out::Ok(v, rd.pos), String::new(), rd.contract_broken),
		Err(e) => (Out::Err, e, rd.contract_broken),
	}
}

pub fn partitions(rng: &mut Rng, len: usize) -> Vec<Vec<usize>> {
	let mut ps: Vec<Vec<usize>> = Vec::new();
	if len <= 64 {
		for k in 1..=len.max(1) {
			ps.push(vec![k]);
		}
	} else {
		for k in [1usize, 2, 3, 5, 7, 8, 9, 16, len - 1, len] {
			ps.push(vec![k]);
		}
	}
	let extra = if len <= 64 { 8 } else { 6 };
	for _ in 0..extra {
		let n = 2 + rng.below(10);
		ps.push(
			(0..n)
				.map(|_| {
					let cap = if rng.coin() { 4 } else { 24 };
					1 + rng.below(cap)
				})
				.collect(),
		);
	}
	ps
}

pub fn run_case(ctx: &mut Ctx, case_seed: u64) {
	let mut rng = Rng::new(case_seed);
	let mut cfg = SchemaGenCfg::default();
	cfg.max_nodes = *rng.pick(&[1, 3, 8, 20]);
	let rs = gen_schema(&mut rng, &cfg);
	let (schema, _) = make_schema(&rs, SchemaVia::Builder, &mut rng);
	let schema = match schema {
		Ok(s) => s,
		Err(_) => return,
	};
	let mut vg = ValueGen::new(&rs);
	vg.budget = *rng.pick(&[5, 40, 200]);
	let v = vg.gen(&mut rng);
	let mut bytes = Vec::new();
	let overlong = rng.coin();
	{
		let mut lay = Layout::random(&mut rng);
		lay.overlong = if overlong { 5 } else { 0 };
		if encode(&rs, 0, &v, &mut lay, &mut bytes).is_err() {
			return;
		}
	}
	if overlong {
		ctx.count("overlong_varint_inputs");
	}
	let kind = rng.below(10);
	match kind {
		0..=5 => {}
		6..=8 => {
			// 1-3 byte mutations
			for _ in 0..1 + rng.below(3) {
				if bytes.is_empty() {
					break;
				}
				let k = rng.below(bytes.len());
				match rng.below(4) {
					0 => bytes[k] ^= 1 << rng.below(8),
					1 => bytes[k] = 0xFF,
					2 => bytes[k] = 0x80,
					_ => {
						bytes.remove(k);
					}
				}
			}
		}
		_ => {
			let n = rng.below(40);
			bytes = rng.bytes(n);
		}
	}
	if bytes.len() > 600 {
		// keep the partition sweep affordable
		bytes.truncate(600);
	}
	// sentinel tail: following data must be left untouched
	let tail = [0xA5u8, 0x5A, 0xC3, 0x01, 0x00, 0xFF, 0x7F, 0x80];
	let mut input = bytes.clone();
	input.extend_from_slice(&tail);

	let mo = ModeOwned::random(&mut rng);
	let target = *rng.pick(&[Target::Typed, Target::Typed, Target::Any, Target::Ignored]);
	let (ref_out, ref_err) = run_slice(&schema, &rs, &input, target, &mo);
	for sched in partitions(&mut rng, input.len()) {
		let (out, err, broken) = run_reader(&schema, &rs, &input, sched.clone(), target, &mo);
		ctx.count("partitions_compared");
		if broken {
			ctx.violation(
				"bufread-contract-broken (consume > filled)",
				case_seed,
				json!({"schema": rs.spell(None).compact(), "bytes": hex_full(&input), "schedule": sched}),
			);
			return;
		}
		if out != ref_out {
			let class = match (&ref_out, &out) {
				(Out::Ok(..), Out::Err) => "slice-ok-reader-err",
				(Out::Err, Out::Ok(..)) => "slice-err-reader-ok",
				(Out::Ok(a, ca), Out::Ok(b, cb)) if a == b && ca != cb => "different-consumption",
				_ => "different-value",
			};
			ctx.violation(
				format!("slice-vs-reader {class} target={target:?}"),
				case_seed,
				json!({"schema": rs.spell(None).compact(), "bytes": hex_full(&input), "schedule": sched, "target": format!("{target:?} {}", mo.describe()),
					"slice": format!("{ref_out:?} {ref_err}").chars().take(400).collect::<String>(), "reader": format!("{out:?} {err}").chars().take(400).collect::<String>(),
					"input_had_overlong_varints": overlong, "input_kind": kind}),
			);
			return;
		}
		match out {
			Out::Ok(..) => ctx.count("agree_ok"),
			Out::Err => ctx.count("agree_err"),
		}
		ctx.distinct_bytes(&[&shape_hash(&rs).to_le_bytes(), &input, format!("{sched:?}").as_bytes()]);
	}
	ctx.sample(|| json!({"schema": rs.spell(None).compact(), "bytes": hex_full(&input), "target": format!("{target:?}"), "slice_outcome": format!("{ref_out:?}").chars().take(200).collect::<String>()}));

	// ---- single-object framing
	// (valid datum bytes only: the single-object entry points take no limits, and a mutated count
	// under the default max_seq_size of 10^9 would only exercise the harness' own memory)
	if kind <= 5 && rng.chance(1, 3) {
		let mut so = vec![0xC3, 0x01];
		so.extend_from_slice(schema.rabin_fingerprint());
		if rng.chance(1, 6) {
			let k = rng.below(10);
			so[k] ^= 0x40;
		}
		so.extend_from_slice(&bytes);
		if rng.chance(1, 8) {
			let cut = rng.below(so.len().min(12) + 1);
			so.truncate(cut);
		}
		let stats = RefCell::new(Stats::default());
		let a: Result<String, String> = serde_avro_fast::from_single_object_slice::<crate::props::c11::AnyOwned>(&so, &schema)
			.map(|v| format!("{:?}", v.0))
			.map_err(|e| e.to_string());
		let _ = &stats;
		for sched in partitions(&mut rng, so.len()).into_iter().take(24) {
			let rd = ChunkedBufRead::new(&so, sched.clone());
			let b: Result<String, String> = serde_avro_fast::from_single_object_reader::<_, AnyOwned>(rd, &schema)
				.map(|v| format!("{:?}", v.0))
				.map_err(|e| e.to_string());
			ctx.count("single_object_compared");
			if a.is_ok() != b.is_ok() || (a.is_ok() && a != b) {
				ctx.violation(
					"single-object slice-vs-reader",
					case_seed,
					json!({"schema": rs.spell(None).compact(), "bytes": hex_full(&so), "schedule": sched, "slice": format!("{a:?}").chars().take(300).collect::<String>(), "reader": format!("{b:?}").chars().take(300).collect::<String>()}),
				);
				return;
			}
		}
	}
	if rng.chance(1, 3) {
		container_case(ctx, case_seed, &mut rng, &rs);
	}
}

/// Container files: the slice reader's sequence of per-call outcomes is the reference for streamed readers over the same bytes.
fn container_case(ctx: &mut Ctx, case_seed: u64, rng: &mut Rng, rs: &RSchema) {
	use crate::refavro::container as rc;
	use crate::sutc::{read_file, Item, ReaderKind};
	let mut vg = ValueGen::new(rs);
	let n = 1 + rng.below(7);
	let mut encs: Vec<Vec<u8>> = Vec::new();
	// sizes vary a lot between values so that blocks grow and shrink along the file
	for _ in 0..n {
		vg.budget = *rng.pick(&[1, 5, 40, 200, 600]);
		let v = vg.gen(rng);
		let mut b = Vec::new();
		let mut lay = Layout::random(rng);
		if encode(rs, 0, &v, &mut lay, &mut b).is_err() {
			return;
		}
		encs.push(b);
	}
	let codec = *rng.pick(&[rc::Codec::Null, rc::Codec::Null, rc::Codec::Deflate, rc::Codec::Snappy, rc::Codec::Zstandard, rc::Codec::Bzip2, rc::Codec::Xz]);
	let mut sync = [0u8; 16];
	for b in sync.iter_mut() {
		*b = rng.next_u32() as u8;
	}
	let mut file = {
		let mut o = rc::WriteOpts {
			codec,
			write_codec_key: codec != rc::Codec::Null || rng.coin(),
			user_meta: vec![],
			sync,
			rng,
			empty_blocks: true,
		};
		rc::write(&rs.spell(None).compact(), &encs, &mut o)
	};
	let damaged = rng.chance(1, 3);
	if damaged && !file.is_empty() {
		if codec == rc::Codec::Null {
			// damage anywhere after the header so that the outcomes include errors
			let lo = file.len() / 3;
			match rng.below(3) {
				0 => {
					let k = lo + rng.below(file.len() - lo);
					file[k] ^= 1 << rng.below(8);
				}
				1 => {
					let k = lo + rng.below(file.len() - lo);
					file.truncate(k);
				}
				_ => {
					let k = lo + rng.below(file.len() - lo);
					file.remove(k);
				}
			}
		} else {
			// compressed blocks: what a decompression library makes of a corrupt stream fed in one piece or in many is that
			// library's business (observed: libzstd's one-shot path rejects a wrong frame content size that its streaming path accepts),
			// so the damage stays in what the crate itself interprets: object counts, sync markers, and truncation anywhere
			let blocks = match rc::parse(&file) {
				Ok(o) => o.blocks,
				Err(_) => return,
			};
			if blocks.is_empty() || rng.chance(1, 3) {
				let lo = file.len() / 3;
				let k = lo + rng.below(file.len() - lo);
				file.truncate(k);
			} else {
				let b = rng.pick(&blocks).clone();
				let (lo, hi) = if rng.coin() { (b.offs[0], b.offs[1]) } else { (b.offs[3], b.offs[4]) };
				if hi <= lo {
					return;
				}
				let k = lo + rng.below(hi - lo);
				file[k] ^= 1 << rng.below(7);
			}
		}
	}
	if file.len() > 60_000 {
		return;
	}
	let mo = ModeOwned::random(rng);
	let max_calls = 64;
	let show = |r: &Result<(Vec<Item>, String), String>| -> Vec<String> {
		match r {
			Err(_) => vec!["open-failed".into()],
			Ok((items, _)) => items
				.iter()
				.map(|i| match i {
					Item::Val(v) => format!("{v:?}"),
					Item::Err(_) => "Err".into(),
					Item::End => "End".into(),
				})
				.collect(),
		}
	};
	let reference = read_file(&file, rs, &ReaderKind::Slice, &mo, max_calls);
	let ref_shown = show(&reference);
	let mut kinds: Vec<ReaderKind> = vec![ReaderKind::BufReader(1), ReaderKind::BufReader(7), ReaderKind::BufReader(8192)];
	for k in [1usize, 2, 3, 5, 16, 64] {
		kinds.push(ReaderKind::Chunked(vec![k]));
	}
	for _ in 0..6 {
		kinds.push(ReaderKind::Chunked(crate::io::schedule(rng, file.len())));
	}
	for kind in kinds {
		let got = read_file(&file, rs, &kind, &mo, max_calls);
		let got_shown = show(&got);
		ctx.count("container_partitions_compared");
		// outcome of reading a file = the values delivered, then how it ended (End, or an error).
		// Both readers must end the same way; when the file ends cleanly they must have delivered the same values; when it ends in an
		// error, the values one delivered before reporting it must be a prefix of the other's (the slice reader sees a whole block
		// before decoding any of it, a stream reader meets the damage only when it gets there - both report an error for the file).
		let split = |v: &Vec<String>| -> (Vec<String>, String) {
			let k = v.iter().position(|x| x == "Err" || x == "End" || x == "open-failed").unwrap_or(v.len());
			(v[..k].to_vec(), v.get(k).cloned().unwrap_or_else(|| "call-cap".into()))
		};
		let (va, ta) = split(&ref_shown);
		let (vb, tb) = split(&got_shown);
		if ta == "call-cap" || tb == "call-cap" {
			// a damaged count can promise more values than this monitor is willing to pull
			ctx.inconclusive += 1;
			continue;
		}
		let same = if ta != tb {
			false
		} else if ta == "Err" {
			let k = va.len().min(vb.len());
			va[..k] == vb[..k]
		} else {
			va == vb
		};
		if same && va.len() != vb.len() {
			ctx.count("container_error_reported_after_different_number_of_values");
		}
		if !same {
			let first = ref_shown.iter().zip(got_shown.iter()).position(|(a, b)| a != b).unwrap_or(ref_shown.len().min(got_shown.len()));
			let class = if ta != tb {
				format!("ends-differ slice={ta} reader={tb}")
			} else {
				"different-value".to_owned()
			};
			ctx.violation(
				format!("container slice-vs-reader {class} codec={} damaged={damaged}", codec.name()),
				case_seed,
				json!({"schema": rs.spell(None).compact(), "file": hex_full(&file), "reader": format!("{kind:?}"), "target": mo.describe(), "first_differing_call": first,
					"slice_outcomes": ref_shown.iter().map(|s| s.chars().take(120).collect::<String>()).collect::<Vec<_>>(),
					"reader_outcomes": got_shown.iter().map(|s| s.chars().take(120).collect::<String>()).collect::<Vec<_>>(),
					"slice_errors": reference.as_ref().ok().map(|g| g.0.iter().filter_map(|i| if let Item::Err(e) = i { Some(e.clone()) } else { None }).collect::<Vec<_>>()),
					"reader_errors": got.as_ref().ok().map(|g| g.0.iter().filter_map(|i| if let Item::Err(e) = i { Some(e.clone()) } else { None }).collect::<Vec<_>>())}),
			);
			return;
		}
	}
	if !damaged {
		ctx.count("container_intact_files");
		if ref_shown.iter().filter(|s| *s != "End" && *s != "Err" && *s != "open-failed").count() != n {
			// an intact reference-written file must give back all n values (C06 decides their content)
			ctx.violation(
				format!("container intact-file-slice-reader-short codec={}", codec.name()),
				case_seed,
				json!({"schema": rs.spell(None).compact(), "file": hex_full(&file), "values_written": n, "slice_outcomes": ref_shown.iter().map(|s| s.chars().take(120).collect::<String>()).collect::<Vec<_>>()}),
			);
		}
	} else {
		ctx.count("container_damaged_files");
	}
}

/// owned untyped value usable with the `DeserializeOwned` entry points
pub struct AnyOwned(pub crate::bridge::collect::U);
impl<'de> serde::Deserialize<'de> for AnyOwned {
	fn deserialize<D: serde::Deserializer<'de>>(d: D) -> Result<Self, D::Error> {
		thread_local! {
			static STATS: RefCell<Stats> = RefCell::new(Stats::default());
		}
		let stats = RefCell::new(Stats::default());
		use serde::de::DeserializeSeed;
		AnySeed { stats: &stats, depth: 0 }.deserialize(d).map(AnyOwned)
	}
}
