#!/bin/bash
# usage: soak.sh <tier> <seed>...   runs every check on the current tree, logs one line per check
TIER=$1; shift
for seed in "$@"; do
  for id in C01 C02 C03 C04 C05 C06 C07 C08 C09 C11 C12 C13 C14 C15 C16 C17 C18 C19 C20 C10; do
    out=$(VERIF_SEED=$seed ./check $id $TIER 2>&1); rc=$?
    echo "seed=$seed $id exit=$rc $(echo "$out" | grep -E "^$id:" | tail -1)"
    echo "$out" | grep -E "VIOLATION|signature:|HARNESS|nothing|died" | sort | uniq -c | head -8
  done
done
echo SOAKDONE
