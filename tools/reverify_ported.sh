#!/bin/bash
# usage: reverify_ported.sh <seeded-id> <ported.diff>
# Re-confirms a seeded change whose patch had to be ported to the current /repo HEAD: in a scratch worktree the
# demonstration must pass without the ported patch, fail with it, and the unedited suite must pass with it.
ID=$1; PORTED=$2; W=/tmp/mut/reverify_$ID
set -u
rm -rf $W; git -C /repo worktree add --detach $W HEAD -q || exit 2
META=/verif/seeded/$ID/meta.json
DEMO_PATH=$(python3 -c "import json;print(json.load(open('$META'))['demo_path'].split()[0])")
DEMO_FILE=$(ls /verif/seeded/$ID/demo_* | head -1)
NAME=$(basename $DEMO_PATH .rs)
export CARGO_TARGET_DIR=$W/target
cd $W
mkdir -p $(dirname $DEMO_PATH); cp $DEMO_FILE $DEMO_PATH
FEATS="--features deflate,bzip2,snappy,xz,zstandard"
cargo test -p serde_avro_fast --test $NAME --offline $FEATS > $W/without.log 2>&1; R0=$?
git apply $PORTED || { echo "$ID: ported patch does not apply"; exit 3; }
cargo test -p serde_avro_fast --test $NAME --offline $FEATS > $W/with.log 2>&1; R1=$?
mv $DEMO_PATH $W/demo.aside
cargo test --workspace --no-fail-fast --offline > $W/suite.log 2>&1; R2=$?
PASSED=$(grep -E "^test result" $W/suite.log | awk '{p+=$4} END {print p}')
echo "ID=$ID ported demo_without_exit=$R0 demo_with_exit=$R1 suite_exit=$R2 tests_passed=$PASSED"
if [ $R0 = 0 ] && [ $R1 != 0 ] && [ $R2 = 0 ]; then
  HEAD=$(git -C /repo rev-parse --short HEAD)
  [ -f /verif/seeded/$ID/patch.orig.diff ] || cp /verif/seeded/$ID/patch.diff /verif/seeded/$ID/patch.orig.diff
  cp $PORTED /verif/seeded/$ID/patch.diff
  python3 - <<PY
import json
m=json.load(open('$META'))
m['ported_to']='$HEAD'
m['ported_note']='patch.diff was re-based by hand onto /repo $HEAD after a fix touched the same lines (original kept as patch.orig.diff); demonstration re-confirmed: passes without, fails with, suite passes with ($PASSED tests)'
json.dump(m,open('$META','w'),indent=1)
PY
  echo CONFIRMED
else
  echo "NOT CONFIRMED"; tail -5 $W/without.log $W/with.log
fi
cd /; git -C /repo worktree remove --force $W; git -C /repo worktree prune
