//! C17 — container reader on damaged files: genuine prefix only, corruption detected.

use crate::bridge::present::Pres;
use crate::gen::schema::{gen_schema, shape_hash, SchemaGenCfg};
use crate::gen::value::ValueGen;
use crate::props::c05::pick_write_cfg;
use crate::refavro::container::{self, Codec, WriteOpts};
use crate::refavro::schema::*;
use crate::refavro::value::*;
use crate::rng::Rng;
use crate::run::{Ctx, PropSpec};
use crate::sut::*;
use crate::sutc::*;
use serde_json::json;

pub const SPEC: PropSpec = PropSpec {
	id: "C17",
	level: "fault_enumeration",
	rule: "case = valid container file (written by the crate or by the reference writer; 6 codecs; 1..6 blocks; every value occupies >= 1 byte) with known values, then per case one damage family: (a) truncation at EVERY byte offset when the file is <= 4 KiB, else 160 offsets stratified over magic / metadata / sync / block headers / payload / trailing sync; (b) single-byte corruption at every offset (<= 1.5 KiB files; sampled above) x {bit flip, 0x00, 0xFF, +1}; (c) block count / size varints re-encoded to smaller and larger values, trailing sync and header sync bytes altered, snappy CRC altered; (d) an io::Error injected at every read-call index of a chunked reader. After the first Err the monitor keeps calling 16 more times. Verdicts: every yielded value is the next original value (truncation, I/O faults); no panic / death / CPU overrun for any damage; a file with altered sync / count / size / CRC is never read to the end without an Err; after an injected I/O error and after a framing error everything that follows is Ok(None); a truncated file does not keep producing errors forever. Every truncated and every field-rewritten file is read a second time through one more public entry point drawn per reading (deserialize_next_borrowed / deserialize_next over the slice, deserialize_next over a 7-byte BufReader, the deserialize and deserialize_borrowed iterators re-created after every item) under the same verdicts (counters alt_api_driven:*). distinct by hash(file, damage)",
	assumptions: &["payload corruption that still decodes under the null codec is not detectable in principle and is not demanded"],
	cases: (50_000_000, 4_000_000_000),
	secs: (45, 900),
	required: &["truncations_checked", "corruptions_checked", "field_rewrites_detected", "io_faults_checked", "files:crate-written", "files:reference-written"],
	run_case,
	once: None,
	panics_are_violations: true,
	cpu_kill_secs: 30,
	max_workers: 16,
};

fn p(k: Kind) -> Node {
	Node { kind: k, logical: None }
}

/// schema whose every value occupies at least one byte
fn sized_schema(rng: &mut Rng) -> RSchema {
	match rng.below(4) {
		0 => RSchema { nodes: vec![p(Kind::Long)] },
		1 => RSchema {
			nodes: vec![
				p(Kind::Record {
					name: "R".into(),
					fields: vec![("a".into(), 1), ("b".into(), 2), ("c".into(), 3)],
				}),
				p(Kind::Long),
				p(Kind::String),
				p(Kind::Double),
			],
		},
		2 => RSchema {
			nodes: vec![p(Kind::Union(vec![1, 2, 3])), p(Kind::Null), p(Kind::String), p(Kind::Array(4)), p(Kind::Int)],
		},
		_ => {
			for _ in 0..20 {
				let mut cfg = SchemaGenCfg::default();
				cfg.max_nodes = 12;
				let rs = gen_schema(rng, &cfg);
				let sized = match &rs.nodes[0].kind {
					Kind::Null => false,
					Kind::Record { fields, .. } => fields.iter().any(|f| {
						matches!(
							rs.nodes[f.1].kind,
							Kind::Int | Kind::Long | Kind::Boolean | Kind::Float | Kind::Double | Kind::String | Kind::Bytes | Kind::Union(_) | Kind::Array(_) | Kind::Map(_) | Kind::Enum { .. }
						)
					}),
					Kind::Fixed { size, .. } => *size > 0,
					_ => true,
				};
				if sized {
					return rs;
				}
			}
			RSchema { nodes: vec![p(Kind::Int)] }
		}
	}
}

#[derive(Clone, Copy, PartialEq, Debug)]
enum Expectation {
	/// values must be a prefix of the originals; anything may follow
	PrefixOnly,
	/// additionally an Err must occur before the end of the stream
	MustErr,
	/// no fabricated-value rule (payload may have changed), only no panic / bounded
	Robust,
}

struct Outcome {
	items: Vec<Item>,
}

fn drive_reader(bytes: &[u8], rs: &RSchema, kind: &ReaderKind, nvals: usize, fail_at: Option<u64>) -> Result<Outcome, String> {
	drive_reader_kind(bytes, rs, kind, nvals, fail_at, std::io::ErrorKind::Other)
}

fn drive_reader_kind(bytes: &[u8], rs: &RSchema, kind: &ReaderKind, nvals: usize, fail_at: Option<u64>, fail_kind: std::io::ErrorKind) -> Result<Outcome, String> {
	let mo = ModeOwned::default_typed();
	match (kind, fail_at) {
		(ReaderKind::Chunked(s), Some(i)) => {
			use crate::bridge::collect::{Collect, Stats};
			use serde_avro_fast::object_container_file_encoding::Reader;
			let stats = std::cell::RefCell::new(Stats::default());
			let m = mo.as_mode(&stats);
			let mut rd = crate::io::ChunkedBufRead::new(bytes, s.clone());
			rd.fail_at_call = Some(i);
			rd.fail_kind = fail_kind;
			let mut reader = Reader::from_reader(rd).map_err(|e| e.to_string())?;
			let mut items = Vec::new();
			let mut after_err = 0;
			while items.len() < nvals + 40 {
				match reader.deserialize_seed_next(Collect::root(rs, &m)) {
					Ok(Some(v)) => items.push(Item::Val(v)),
					Ok(None) => {
						items.push(Item::End);
						if items.iter().filter(|x| **x == Item::End).count() >= 3 {
							break;
						}
					}
					Err(e) => {
						items.push(Item::Err(e.to_string()));
						after_err += 1;
						if after_err > 18 {
							break;
						}
					}
				}
			}
			Ok(Outcome { items })
		}
		_ => {
			// generic path: read_file stops after two Ends; allow many calls so that repeated errors show
			let (items, _) = read_file(bytes, rs, kind, &mo, nvals + 24)?;
			Ok(Outcome { items })
		}
	}
}

/// The same damaged bytes through the crate's other public reading entry points (C17 quantifies over
/// "the reader", not over `deserialize_seed_next`): values as Debug strings of the untyped owned value.
#[derive(Debug, Clone, PartialEq)]
enum AltItem {
	Val(String),
	Err(String),
	End,
}

const ALT_APIS: [&str; 5] = ["deserialize_next_borrowed(slice)", "deserialize_next(slice)", "deserialize_next(bufreader7)", "deserialize-iterator-restarted(slice)", "deserialize_borrowed-iterator-restarted(slice)"];

fn drive_alt_api(bytes: &[u8], api: usize, nvals: usize) -> Result<Vec<AltItem>, String> {
	use crate::props::c11::AnyOwned;
	use serde_avro_fast::object_container_file_encoding::Reader;
	let mut items: Vec<AltItem> = Vec::new();
	let mut push = |items: &mut Vec<AltItem>, r: Result<Option<AnyOwned>, String>| -> bool {
		match r {
			Ok(Some(v)) => items.push(AltItem::Val(format!("{:?}", v.0))),
			Ok(None) => items.push(AltItem::End),
			Err(e) => items.push(AltItem::Err(e)),
		}
		let ends = items.iter().filter(|x| **x == AltItem::End).count();
		let errs = items.iter().filter(|x| matches!(x, AltItem::Err(_))).count();
		ends >= 3 || errs > 18 || items.len() >= nvals + 40
	};
	if api == 2 {
		let mut r = Reader::from_reader(std::io::BufReader::with_capacity(7, bytes)).map_err(|e| e.to_string())?;
		loop {
			let x = r.deserialize_next::<AnyOwned>().map_err(|e| e.to_string());
			if push(&mut items, x) {
				break;
			}
		}
		return Ok(items);
	}
	let mut r = Reader::from_slice(bytes).map_err(|e| e.to_string())?;
	loop {
		let x = match api {
			0 => r.deserialize_next_borrowed::<AnyOwned>().map_err(|e| e.to_string()),
			1 => r.deserialize_next::<AnyOwned>().map_err(|e| e.to_string()),
			3 => r.deserialize::<AnyOwned>().next().transpose().map_err(|e| e.to_string()),
			_ => r.deserialize_borrowed::<AnyOwned>().next().transpose().map_err(|e| e.to_string()),
		};
		if push(&mut items, x) {
			break;
		}
	}
	Ok(items)
}

/// I/O fault at read call `i` of a chunked reader, pulled through `deserialize_next` (api 0) or the
/// `deserialize` iterator re-created after every item (api 1)
fn drive_alt_fault(bytes: &[u8], sched: &[usize], i: u64, fail_kind: std::io::ErrorKind, api: usize, nvals: usize) -> Result<Vec<AltItem>, String> {
	use crate::props::c11::AnyOwned;
	use serde_avro_fast::object_container_file_encoding::Reader;
	let mut rd = crate::io::ChunkedBufRead::new(bytes, sched.to_vec());
	rd.fail_at_call = Some(i);
	rd.fail_kind = fail_kind;
	let mut r = Reader::from_reader(rd).map_err(|e| e.to_string())?;
	let mut items: Vec<AltItem> = Vec::new();
	loop {
		let x = if api == 0 { r.deserialize_next::<AnyOwned>().map_err(|e| e.to_string()) } else { r.deserialize::<AnyOwned>().next().transpose().map_err(|e| e.to_string()) };
		match x {
			Ok(Some(v)) => items.push(AltItem::Val(format!("{:?}", v.0))),
			Ok(None) => items.push(AltItem::End),
			Err(e) => items.push(AltItem::Err(e)),
		}
		let ends = items.iter().filter(|x| **x == AltItem::End).count();
		let errs = items.iter().filter(|x| matches!(x, AltItem::Err(_))).count();
		if ends >= 3 || errs > 18 || items.len() >= nvals + 40 {
			break;
		}
	}
	Ok(items)
}

/// judge2's rules over an alternate-API outcome
fn judge_alt(items: &[AltItem], want: &[String], exp: Expectation, damage_is_truncation_or_io: bool, every_error_is_framing: bool) -> Option<String> {
	let mut next = 0usize;
	let mut seen_err = false;
	let mut errs_in_a_row = 0usize;
	let mut max_errs_in_a_row = 0usize;
	let mut unrecoverable_seen = false;
	for it in items {
		match it {
			AltItem::Val(v) => {
				errs_in_a_row = 0;
				let judged = match exp {
					Expectation::Robust => false,
					Expectation::MustErr => !seen_err,
					Expectation::PrefixOnly => true,
				};
				if judged && (next >= want.len() || &want[next] != v) {
					return Some(if seen_err { "value-that-was-not-written-yielded-after-error".into() } else { "value-that-was-not-written-yielded".into() });
				}
				if unrecoverable_seen {
					return Some("value-yielded-after-unrecoverable-error".into());
				}
				next += 1;
			}
			AltItem::Err(e) => {
				seen_err = true;
				errs_in_a_row += 1;
				max_errs_in_a_row = max_errs_in_a_row.max(errs_in_a_row);
				if unrecoverable_seen {
					return Some("error-repeated-after-unrecoverable-error (expected end of stream)".into());
				}
				if every_error_is_framing || e.contains("injected") || e.contains("sync marker") || e.contains("Encountered IO error") {
					unrecoverable_seen = true;
				}
			}
			AltItem::End => errs_in_a_row = 0,
		}
	}
	if exp == Expectation::MustErr && !seen_err {
		return Some("damage-not-reported (read to the end without error)".into());
	}
	if damage_is_truncation_or_io && max_errs_in_a_row > 16 {
		return Some("truncated-input-keeps-producing-errors".into());
	}
	None
}

/// Runs one alternate entry point over damaged bytes and judges it; returns (signature, detail)
fn alt_api_check(ctx: &mut Ctx, rng: &mut Rng, damaged: &[u8], rs: &RSchema, vals: &[Val], exp: Expectation, trunc: bool, framing: bool) -> Option<(String, serde_json::Value)> {
	use crate::bridge::collect::untyped;
	let api = rng.below(ALT_APIS.len());
	let want: Vec<String> = vals.iter().map(|v| format!("{:?}", untyped(rs, 0, v))).collect();
	match drive_alt_api(damaged, api, vals.len()) {
		Err(_) => {
			ctx.count("alt_api_rejected_at_open");
			None
		}
		Ok(items) => {
			ctx.count(&format!("alt_api_driven:{}", ALT_APIS[api]));
			if items.iter().any(|x| matches!(x, AltItem::Err(_))) {
				ctx.count("alt_api_outcomes_with_error");
			}
			judge_alt(&items, &want, exp, trunc, framing).map(|sig| {
				let shape: Vec<String> = items
					.iter()
					.map(|x| match x {
						AltItem::Val(_) => "V".to_owned(),
						AltItem::End => "END".to_owned(),
						AltItem::Err(e) => format!("E({})", e.chars().take(80).collect::<String>()),
					})
					.collect();
				(format!("{sig} api={}", ALT_APIS[api]), serde_json::json!({"api": ALT_APIS[api], "outcome_shape": shape}))
			})
		}
	}
}

/// Returns a violation signature if the outcome breaks the expectation
fn judge(out: &Outcome, vals: &[Val], exp: Expectation, damage_is_truncation_or_io: bool) -> Option<String> {
	judge2(out, vals, exp, damage_is_truncation_or_io, false)
}

/// `every_error_is_framing`: the damage is in the block framing (count / size / sync / CRC), so the
/// first reported error is unrecoverable by nature: only end of stream may follow
fn judge2(out: &Outcome, vals: &[Val], exp: Expectation, damage_is_truncation_or_io: bool, every_error_is_framing: bool) -> Option<String> {
	let mut next = 0usize;
	let mut seen_err = false;
	let mut errs_in_a_row = 0usize;
	let mut max_errs_in_a_row = 0usize;
	let mut framing_or_io_err_seen = false;
	for it in &out.items {
		match it {
			Item::Val(v) => {
				errs_in_a_row = 0;
				// for damage that only has to be *reported*, values are judged up to the first error
				let judged = match exp {
					Expectation::Robust => false,
					Expectation::MustErr => !seen_err,
					Expectation::PrefixOnly => true,
				};
				if judged {
					if next >= vals.len() || &vals[next] != v {
						return Some(if seen_err {
							"value-that-was-not-written-yielded-after-error".into()
						} else {
							"value-that-was-not-written-yielded".into()
						});
					}
				}
				if framing_or_io_err_seen {
					return Some("value-yielded-after-unrecoverable-error".into());
				}
				next += 1;
			}
			Item::Err(e) => {
				seen_err = true;
				errs_in_a_row += 1;
				max_errs_in_a_row = max_errs_in_a_row.max(errs_in_a_row);
				if framing_or_io_err_seen {
					return Some("error-repeated-after-unrecoverable-error (expected end of stream)".into());
				}
				if every_error_is_framing || e.contains("injected") || e.contains("sync marker") || e.contains("Encountered IO error") {
					framing_or_io_err_seen = true;
				}
			}
			Item::End => {
				errs_in_a_row = 0;
			}
		}
	}
	if exp == Expectation::MustErr && !seen_err {
		return Some("damage-not-reported (read to the end without error)".into());
	}
	if damage_is_truncation_or_io && max_errs_in_a_row > 16 {
		return Some("truncated-input-keeps-producing-errors".into());
	}
	None
}

pub fn run_case(ctx: &mut Ctx, case_seed: u64) {
	// values written by this monitor hold at most a few dozen elements per collection
	crate::bridge::collect::set_seq_cap(50_000);
	let mut rng = Rng::new(case_seed);
	let rs = sized_schema(&mut rng);
	let nblocks_target = 1 + rng.below(6);
	let n = nblocks_target * (1 + rng.below(5));
	let vals: Vec<Val> = (0..n)
		.map(|_| {
			let mut vg = ValueGen::new(&rs);
			vg.budget = 12;
			vg.gen(&mut rng)
		})
		.collect();
	let codec = *rng.pick(&Codec::ALL);
	let crate_written = rng.coin();
	let file = if crate_written {
		let (schema, _) = make_schema(&rs, SchemaVia::Builder, &mut rng);
		let schema = match schema {
			Ok(s) => s,
			Err(_) => return,
		};
		let mut wc = pick_write_cfg(&mut rng);
		wc.codec = codec;
		wc.approx_block_size = *rng.pick(&[Some(1), Some(40), Some(200), None]);
		let ops = op_pattern(&mut rng, n);
		match write_file(&schema, &rs, &vals, &ops, &wc, &Pres::canonical()) {
			Ok(f) => f,
			Err(_) => return,
		}
	} else {
		let enc: Vec<Vec<u8>> = vals.iter().filter_map(|v| encode_canonical(&rs, v).ok()).collect();
		if enc.len() != vals.len() {
			return;
		}
		let mut wrng = rng.fork();
		container::write(
			&rs.spell(None).compact(),
			&enc,
			&mut WriteOpts {
				codec,
				write_codec_key: true,
				user_meta: vec![("k".into(), vec![1, 2, 3])],
				sync: rng.bytes(16).try_into().unwrap(),
				rng: &mut wrng,
				empty_blocks: false,
			},
		)
	};
	ctx.count(if crate_written { "files:crate-written" } else { "files:reference-written" });
	let ocf = match container::parse(&file) {
		Ok(o) => o,
		Err(_) => return,
	};
	// undamaged file must read completely (guards the harness; C05/C06 own that property)
	match read_file(&file, &rs, &ReaderKind::Slice, &ModeOwned::default_typed(), n + 4) {
		Ok((items, _)) if items.iter().filter(|i| matches!(i, Item::Val(_))).count() == n => {}
		_ => {
			ctx.count("undamaged_file_not_read_(C05_territory)");
			return;
		}
	}
	let describe = |damage: String, kind: &ReaderKind, out: Option<&Outcome>| {
		json!({"schema": rs.spell(None).compact(), "codec": codec.name(), "written_by": if crate_written {"crate"} else {"reference"}, "n_values": n, "blocks": ocf.blocks.iter().map(|b| json!({"count": b.count, "size": b.size, "offsets": b.offs})).collect::<Vec<_>>(),
			"header_len": ocf.header_len, "file": hex_full(&file[..file.len().min(3000)]), "file_len": file.len(), "damage": damage, "reader": format!("{kind:?}"),
			"outcome": out.map(|o| o.items.iter().map(|i| match i { Item::Val(_) => "value".to_string(), Item::End => "end".to_string(), Item::Err(e) => format!("err: {}", e.chars().take(80).collect::<String>()) }).collect::<Vec<_>>())})
	};
	let family = rng.below(4);
	let pick_kind = |rng: &mut Rng, len: usize| -> ReaderKind {
		match rng.below(3) {
			0 => ReaderKind::Slice,
			1 => ReaderKind::Chunked(vec![1 + rng.below(5)]),
			_ => ReaderKind::Chunked(crate::io::schedule(rng, len)),
		}
	};
	match family {
		0 => {
			// ---- truncation
			let cuts: Vec<usize> = if file.len() <= 4096 {
				(0..file.len()).collect()
			} else {
				let mut c: Vec<usize> = Vec::new();
				c.extend(0..8.min(file.len()));
				c.extend((ocf.header_sync_at.saturating_sub(3))..(ocf.header_len + 3).min(file.len()));
				for b in &ocf.blocks {
					for &o in &b.offs {
						c.extend(o.saturating_sub(2)..(o + 3).min(file.len()));
					}
					for _ in 0..6 {
						c.push(b.offs[2] + rng.below((b.offs[3] - b.offs[2]).max(1)));
					}
				}
				c.sort();
				c.dedup();
				if c.len() > 160 {
					rng.shuffle(&mut c);
					c.truncate(160);
				}
				c
			};
			for cut in cuts {
				if cut >= file.len() {
					continue;
				}
				let kind = pick_kind(&mut rng, cut);
				let damaged = &file[..cut];
				match drive_reader(damaged, &rs, &kind, n, None) {
					Err(_) => {
						ctx.count("truncations_rejected_at_open");
					}
					Ok(out) => {
						if let Some(sig) = judge(&out, &vals, Expectation::PrefixOnly, true) {
							ctx.violation(
								format!("truncation: {sig} reader={}", if matches!(kind, ReaderKind::Slice) { "slice" } else { "bufread" }),
								case_seed,
								describe(format!("truncated at {cut} of {}", file.len()), &kind, Some(&out)),
							);
							return;
						}
					}
				}
				if let Some((sig, detail)) = alt_api_check(ctx, &mut rng, damaged, &rs, &vals, Expectation::PrefixOnly, true, false) {
					ctx.violation(format!("truncation: {sig}"), case_seed, serde_json::json!({"damage": format!("truncated at {cut} of {}", file.len()), "alt": detail, "file_hex": crate::refavro::value::hex_full(&file[..cut.min(4096)])}));
					return;
				}
				ctx.count("truncations_checked");
			}
		}
		1 => {
			// ---- single-byte corruption everywhere
			let offs: Vec<usize> = if file.len() <= 1536 {
				(0..file.len()).collect()
			} else {
				(0..400).map(|_| rng.below(file.len())).collect()
			};
			for o in offs {
				// snappy's length preamble: a corrupted one makes the decoder allocate up to 4 GiB before
				// failing (observed; memory, not a crash) - kept out of the 16-wide sweep
				if codec == Codec::Snappy && ocf.blocks.iter().any(|b| o >= b.offs[2] && o < b.offs[2] + 5) {
					continue;
				}
				let how = rng.below(4);
				let mut damaged = file.clone();
				damaged[o] = match how {
					0 => damaged[o] ^ (1 << rng.below(8)),
					1 => 0x00,
					2 => 0xFF,
					_ => damaged[o].wrapping_add(1),
				};
				if damaged == file {
					continue;
				}
				let kind = pick_kind(&mut rng, damaged.len());
				if let Ok(out) = drive_reader(&damaged, &rs, &kind, n, None) {
					if let Some(sig) = judge(&out, &vals, Expectation::Robust, false) {
						ctx.violation(
							format!("corruption: {sig}"),
							case_seed,
							describe(format!("byte {o} altered (mode {how})"), &kind, Some(&out)),
						);
						return;
					}
				}
				ctx.count("corruptions_checked");
			}
		}
		2 => {
			// ---- field-aware rewrites that must be reported
			for (bi, b) in ocf.blocks.iter().enumerate() {
				let mut variants: Vec<(String, Vec<u8>)> = Vec::new();
				let splice = |from: usize, to: usize, rep: &[u8]| {
					let mut v = file[..from].to_vec();
					v.extend_from_slice(rep);
					v.extend_from_slice(&file[to..]);
					v
				};
				for (label, newc) in [
					("count-1", b.count - 1),
					("count+1", b.count + 1),
					("count+7", b.count + 7),
					("count=0", 0),
					("count=-1", -1),
					("count=-c", -b.count),
					("count=min", i64::MIN),
				] {
					if (newc < 0 && !label.starts_with("count=")) || newc == b.count {
						continue;
					}
					let mut r = Vec::new();
					put_long(newc, &mut r);
					variants.push((format!("block {bi} {label}"), splice(b.offs[0], b.offs[1], &r)));
				}
				for (label, news) in [("size-1", b.size - 1), ("size+1", b.size + 1), ("size-16", b.size - 16), ("size=-1", -1), ("size=-s", -b.size - 1)] {
					if news < 0 && !label.starts_with("size=") {
						continue;
					}
					let mut r = Vec::new();
					put_long(news, &mut r);
					variants.push((format!("block {bi} {label}"), splice(b.offs[1], b.offs[2], &r)));
				}
				{
					let k = b.offs[3] + rng.below(16);
					let mut v = file.clone();
					v[k] ^= 0x20;
					variants.push((format!("block {bi} trailing-sync byte {}", k - b.offs[3]), v));
				}
				if codec == Codec::Snappy && b.size >= 4 {
					let k = b.offs[3] - 1 - rng.below(4);
					let mut v = file.clone();
					v[k] ^= 0x01;
					variants.push((format!("block {bi} snappy-crc byte"), v));
				}
				if bi == 0 {
					let k = ocf.header_sync_at + rng.below(16);
					let mut v = file.clone();
					v[k] ^= 0x04;
					variants.push(("header-sync byte".into(), v));
				}
				for (label, damaged) in variants {
					// count=0 on a block with data and smaller counts leave data behind: must be reported
					let kind = pick_kind(&mut rng, damaged.len());
					match drive_reader(&damaged, &rs, &kind, n, None) {
						Err(_) => ctx.count("field_rewrites_detected"),
						Ok(out) => {
							if let Some(sig) = judge2(&out, &vals, Expectation::MustErr, false, true) {
								let class = label.split_whitespace().nth(2).unwrap_or(&label).split(|c: char| c == '+' || c == '-' || c == '=').next().unwrap_or("").to_owned();
								let class = if label.starts_with("header") { "header-sync".to_owned() } else { class };
								ctx.violation(
									format!("field-rewrite: {sig} field={class} codec={}", codec.name()),
									case_seed,
									describe(label.clone(), &kind, Some(&out)),
								);
								return;
							}
							ctx.count("field_rewrites_detected");
							if let Some((sig, detail)) = alt_api_check(ctx, &mut rng, &damaged, &rs, &vals, Expectation::MustErr, false, true) {
								ctx.violation(format!("field-rewrite: {sig} codec={}", codec.name()), case_seed, serde_json::json!({"damage": label, "alt": detail, "file_hex": crate::refavro::value::hex_full(&damaged[..damaged.len().min(4096)])}));
								return;
							}
						}
					}
				}
			}
		}
		_ => {
			// ---- I/O error injected at every read call
			let sched = vec![1 + rng.below(64)];
			let kind = ReaderKind::Chunked(sched.clone());
			// count calls of a clean run
			let mut probe = crate::io::ChunkedBufRead::new(&file, sched.clone());
			let ncalls = {
				use crate::bridge::collect::{Collect, Stats};
				use serde_avro_fast::object_container_file_encoding::Reader;
				let stats = std::cell::RefCell::new(Stats::default());
				let mo = ModeOwned::default_typed();
				let m = mo.as_mode(&stats);
				match Reader::from_reader(&mut probe) {
					Ok(mut r) => {
						while let Ok(Some(_)) = r.deserialize_seed_next(Collect::root(&rs, &m)) {}
					}
					Err(_) => return,
				}
				probe.fill_calls + probe.read_calls
			};
			let idxs: Vec<u64> = if ncalls <= 300 {
				(0..ncalls).collect()
			} else {
				(0..300).map(|_| rng.below(ncalls as usize) as u64).collect()
			};
			// what kind of error the source reports must not matter: each of them ends the stream after being reported once
			// (`Interrupted` aside, which the reading layers of std may retry transparently: then nothing is lost)
			use std::io::ErrorKind as EK;
			let fault_kind = *rng.pick(&[EK::Other, EK::Other, EK::WouldBlock, EK::TimedOut, EK::ConnectionReset, EK::UnexpectedEof, EK::Interrupted]);
			ctx.count(&format!("io_fault_kind:{fault_kind:?}"));
			for i in idxs {
				match drive_reader_kind(&file, &rs, &kind, n, Some(i), fault_kind) {
					Err(_) => {}
					Ok(out) => {
						if let Some(sig) = judge(&out, &vals, Expectation::PrefixOnly, true) {
							ctx.violation(
								format!("io-fault: {sig}"),
								case_seed,
								describe(format!("io::Error of kind {fault_kind:?} injected at read call {i} of {ncalls}"), &kind, Some(&out)),
							);
							return;
						}
						// the same fault through deserialize_next / the restarted iterator (one reading in four)
						if rng.below(4) == 0 {
							if let ReaderKind::Chunked(sched) = &kind {
								let api = rng.below(2);
								let api_name = ["deserialize_next(chunked)", "deserialize-iterator-restarted(chunked)"][api];
								if let Ok(items) = drive_alt_fault(&file, sched, i, fault_kind, api, n) {
									ctx.count(&format!("alt_api_io_fault_driven:{api_name}"));
									let want: Vec<String> = vals.iter().map(|v| format!("{:?}", crate::bridge::collect::untyped(&rs, 0, v))).collect();
									let mut sig = judge_alt(&items, &want, Expectation::PrefixOnly, true, false);
									if sig.is_none() && !items.iter().any(|x| matches!(x, AltItem::Err(_))) && items.iter().filter(|x| matches!(x, AltItem::Val(_))).count() < n {
										sig = Some("error-swallowed (values missing, no Err reported)".into());
									}
									if let Some(sig) = sig {
										let shape: Vec<String> = items.iter().map(|x| match x { AltItem::Val(_) => "V".to_owned(), AltItem::End => "END".to_owned(), AltItem::Err(e) => format!("E({})", e.chars().take(80).collect::<String>()) }).collect();
										ctx.violation(
											format!("io-fault: {sig} api={api_name}"),
											case_seed,
											serde_json::json!({"damage": format!("io::Error of kind {fault_kind:?} injected at read call {i} of {ncalls}"), "schedule": sched, "outcome_shape": shape, "file_hex": crate::refavro::value::hex_full(&file[..file.len().min(4096)])}),
										);
										return;
									}
								}
							}
						}
						// the fault must not go unnoticed when it hit before the end of the data
						let nvals = out.items.iter().filter(|x| matches!(x, Item::Val(_))).count();
						let saw_err = out.items.iter().any(|x| matches!(x, Item::Err(_)));
						if !saw_err && nvals < n {
							ctx.violation(
								"io-fault: error-swallowed (values missing, no Err reported)",
								case_seed,
								describe(format!("io::Error of kind {fault_kind:?} injected at read call {i} of {ncalls}"), &kind, Some(&out)),
							);
							return;
						}
					}
				}
				ctx.count("io_faults_checked");
			}
		}
	}
	ctx.distinct_bytes(&[&shape_hash(&rs).to_le_bytes(), &crate::rng::fnv(&file).to_le_bytes(), &[family as u8]]);
	ctx.sample(|| json!({"schema": rs.spell(None).compact(), "codec": codec.name(), "file_len": file.len(), "blocks": ocf.blocks.len(), "damage_family": (["truncation", "byte-corruption", "field-rewrite", "io-fault"][family])}));
}
