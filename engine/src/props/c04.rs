//! C04 — decoding untrusted bytes is total and resource-bounded under configured limits.

use crate::alloc::measure;
use crate::bridge::collect::{AnySeed, Collect, Stats};
use crate::gen::schema::{gen_schema, shape_hash, SchemaGenCfg};
use crate::gen::value::{depth_cost, ValueGen};
use crate::io::ChunkedBufRead;
use crate::refavro::schema::*;
use crate::refavro::value::*;
use crate::rng::Rng;
use crate::run::{thread_cpu_ns, Ctx, PropSpec};
use crate::sut::*;
use serde::de::{DeserializeSeed, Deserializer, EnumAccess, IgnoredAny, MapAccess, SeqAccess, VariantAccess, Visitor};
use serde_json::json;
use std::cell::RefCell;
use std::collections::HashSet;

pub const SPEC: PropSpec = PropSpec {
	id: "C04",
	level: "exploration",
	rule: "case = (schema incl. recursive ones, input, limit configuration {allowed_depth in 0,1,3,16,64; max_seq_size in 0,1,10,1000,100000; max_alloc_size in 0,16,4096}, slice or 1-byte/irregular chunked reader, target in {typed Collect, Collect ignoring collections, IgnoredAny, deserialize_any, non-allocating visitor}); inputs: uniform random bytes, valid encodings with 1-3 byte mutations, hostile varints substituted at recorded length/count positions (i64::MIN, 2^62, 2^31, huge counts over zero-byte elements), endless 0x02 streams on recursive schemas, nesting one past the limit, and valid encodings against limits smaller than what they need (must be Err). Monitors: panic hook, worker exit status, per-case thread CPU time, counting allocator, visitor depth / per-sequence element counters, BufRead contract; distinct by hash(schema shape, input, limits, target)",
	assumptions: &[
		"stack sizes: 8 MiB main thread, 2 MiB for the dedicated deep-nesting cases",
		"work bound decided on thread CPU time: > 3 s for an input <= 64 KiB with max_seq_size <= 100000 is reported",
		"zero-allocation is demanded only for Ok results on the slice path with a visitor that does not allocate itself",
	],
	cases: (50_000_000, 4_000_000_000),
	secs: (30, 900),
	required: &[
		"inputs:random",
		"inputs:mutated",
		"inputs:hostile-varint",
		"inputs:deep-stream",
		"limit_must_err_observed",
		"slice_zero_alloc_ok",
		"depth_limit_rejections",
		"seq_limit_rejections",
		"alloc_limit_rejections",
	],
	run_case,
	once: None,
	panics_are_violations: true,
	cpu_kill_secs: 20,
	max_workers: 16,
};

/// visitor that walks everything through `deserialize_any` and stores nothing
#[derive(Clone, Copy)]
pub struct NoAlloc;
impl<'de> DeserializeSeed<'de> for NoAlloc {
	type Value = ();
	fn deserialize<D: Deserializer<'de>>(self, d: D) -> Result<(), D::Error> {
		d.deserialize_any(self)
	}
}
impl<'de> Visitor<'de> for NoAlloc {
	type Value = ();
	fn expecting(&self, f: &mut std::fmt::Formatter) -> std::fmt::Result {
		f.write_str("anything")
	}
	fn visit_unit<E>(self) -> Result<(), E> {
		Ok(())
	}
	fn visit_bool<E>(self, _: bool) -> Result<(), E> {
		Ok(())
	}
	fn visit_i64<E>(self, _: i64) -> Result<(), E> {
		Ok(())
	}
	fn visit_i128<E>(self, _: i128) -> Result<(), E> {
		Ok(())
	}
	fn visit_u64<E>(self, _: u64) -> Result<(), E> {
		Ok(())
	}
	fn visit_f64<E>(self, _: f64) -> Result<(), E> {
		Ok(())
	}
	fn visit_str<E>(self, _: &str) -> Result<(), E> {
		Ok(())
	}
	fn visit_bytes<E>(self, _: &[u8]) -> Result<(), E> {
		Ok(())
	}
	fn visit_none<E>(self) -> Result<(), E> {
		Ok(())
	}
	fn visit_some<D: Deserializer<'de>>(self, d: D) -> Result<(), D::Error> {
		d.deserialize_any(self)
	}
	fn visit_seq<A: SeqAccess<'de>>(self, mut a: A) -> Result<(), A::Error> {
		while a.next_element_seed(NoAlloc)?.is_some() {}
		Ok(())
	}
	fn visit_map<A: MapAccess<'de>>(self, mut a: A) -> Result<(), A::Error> {
		while a.next_key_seed(NoAlloc)?.is_some() {
			a.next_value_seed(NoAlloc)?;
		}
		Ok(())
	}
	fn visit_enum<A: EnumAccess<'de>>(self, a: A) -> Result<(), A::Error> {
		let ((), v) = a.variant_seed(NoAlloc)?;
		v.newtype_variant_seed(NoAlloc)
	}
}

#[derive(Clone, Copy, Debug, PartialEq)]
enum Target {
	Typed,
	TypedIgnoringCollections,
	Ignored,
	Any,
	NoAlloc,
}

fn max_collection_len(v: &Val) -> usize {
	match v {
		Val::Array(xs) => xs.len().max(xs.iter().map(max_collection_len).max().unwrap_or(0)),
		Val::Map(es) => es.len().max(es.iter().map(|(_, x)| max_collection_len(x)).max().unwrap_or(0)),
		Val::Record(xs) => xs.iter().map(max_collection_len).max().unwrap_or(0),
		Val::Union(_, x) => max_collection_len(x),
		_ => 0,
	}
}
fn max_field_len(v: &Val) -> usize {
	match v {
		Val::Str(s) => s.len(),
		Val::Bytes(b) | Val::Fixed(b) => b.len(),
		Val::Array(xs) | Val::Record(xs) => xs.iter().map(max_field_len).max().unwrap_or(0),
		Val::Map(es) => es.iter().map(|(k, x)| k.len().max(max_field_len(x))).max().unwrap_or(0),
		Val::Union(_, x) => max_field_len(x),
		_ => 0,
	}
}

fn recursive_schema(rng: &mut Rng) -> RSchema {
	let p = |k: Kind| Node { kind: k, logical: None };
	match rng.below(4) {
		0 => RSchema {
			nodes: vec![
				p(Kind::Record {
					name: "L".into(),
					fields: vec![("next".into(), 1)],
				}),
				p(Kind::Union(vec![2, 0])),
				p(Kind::Null),
			],
		},
		1 => RSchema {
			nodes: vec![
				p(Kind::Record {
					name: "T".into(),
					fields: vec![("kids".into(), 1), ("m".into(), 2)],
				}),
				p(Kind::Array(0)),
				p(Kind::Map(0)),
			],
		},
		2 => {
			// nested arrays deeper than any limit
			let n = 70 + rng.below(10);
			let mut nodes = Vec::new();
			for i in 0..n {
				nodes.push(p(Kind::Array(i + 1)));
			}
			nodes.push(p(Kind::Null));
			RSchema { nodes }
		}
		_ => RSchema {
			nodes: vec![
				p(Kind::Union(vec![1, 2])),
				p(Kind::Null),
				p(Kind::Record {
					name: "R".into(),
					fields: vec![("a".into(), 3), ("self_".into(), 0)],
				}),
				p(Kind::Array(0)),
			],
		},
	}
}

pub fn run_case(ctx: &mut Ctx, case_seed: u64) {
	let mut rng = Rng::new(case_seed);
	let deep = rng.chance(1, 12);
	let rs = if deep {
		recursive_schema(&mut rng)
	} else {
		let mut cfg = SchemaGenCfg::default();
		cfg.max_nodes = *rng.pick(&[1, 4, 10, 24]);
		gen_schema(&mut rng, &cfg)
	};
	let (schema, _) = make_schema(&rs, SchemaVia::Builder, &mut rng);
	let schema = match schema {
		Ok(s) => s,
		Err(_) => {
			ctx.count("schema_rejected");
			return;
		}
	};
	// ---- input
	let mut vg = ValueGen::new(&rs);
	vg.budget = *rng.pick(&[5, 40, 300]);
	vg.max_depth = 6;
	let v = vg.gen(&mut rng);
	let mut enc = Vec::new();
	let marks;
	let canonical_layout = rng.coin();
	{
		let mut lay = if canonical_layout {
			Layout::canonical()
		} else {
			Layout::random(&mut rng)
		};
		if encode(&rs, 0, &v, &mut lay, &mut enc).is_err() {
			return;
		}
		marks = lay.marks;
	}
	let input_kind = if deep { 4 } else { rng.below(5) };
	let mut input = enc.clone();
	let mut valid = false;
	match input_kind {
		0 => {
			valid = true;
			ctx.count("inputs:valid");
		}
		1 => {
			let cap = if rng.chance(1, 20) { 4096 } else { 64 };
			let n = rng.below(cap);
			input = rng.bytes(n);
			ctx.count("inputs:random");
		}
		2 => {
			for _ in 0..1 + rng.below(3) {
				if input.is_empty() {
					break;
				}
				let k = rng.below(input.len());
				match rng.below(4) {
					0 => input[k] ^= 1 << rng.below(8),
					1 => input[k] = 0xFF,
					2 => input[k] = rng.next_u32() as u8,
					_ => {
						input.truncate(k);
					}
				}
			}
			ctx.count("inputs:mutated");
		}
		3 => {
			// hostile varint at a length / count position
			let cands: Vec<&Mark> = marks
				.iter()
				.filter(|m| {
					matches!(
						m.kind,
						MarkKind::BlockCount | MarkKind::BlockSize | MarkKind::StrLen | MarkKind::BytesLen | MarkKind::UnionIndex | MarkKind::EnumIndex
					)
				})
				.collect();
			if cands.is_empty() {
				// zero-byte elements with a huge count: array<null>-like shapes come from the generator;
				// otherwise just prepend a hostile varint
				let mut b = Vec::new();
				put_long(*rng.pick(&[i64::MAX, i64::MIN, 1 << 62, -(1 << 40)]), &mut b);
				b.extend_from_slice(&input);
				input = b;
			} else {
				let m = **rng.pick(&cands);
				let hostile = *rng.pick(&[
					i64::MIN,
					i64::MIN + 1,
					-1,
					i64::MAX,
					1 << 62,
					1 << 31,
					(1 << 31) - 1,
					1 << 32,
					-(1 << 31),
					100_000,
					100_001,
					1_000_000_000,
					-1_000_000_000,
				]);
				let mut r = Vec::new();
				if rng.chance(1, 6) {
					put_long_padded(hostile, 10, &mut r);
				} else {
					put_long(hostile, &mut r);
				}
				let mut b = input[..m.start].to_vec();
				b.extend_from_slice(&r);
				b.extend_from_slice(&input[m.end..]);
				input = b;
			}
			ctx.count("inputs:hostile-varint");
		}
		_ => {
			// endless discriminant-1 / count-1 stream
			let n = 200 + rng.below(4000);
			let byte = *rng.pick(&[0x02u8, 0x02, 0x01, 0x04]);
			input = vec![byte; n];
			if rng.coin() {
				// nesting exactly one past a small limit is exercised through the limit configs below
				input.extend_from_slice(&[0; 8]);
			}
			ctx.count("inputs:deep-stream");
		}
	}
	// huge count over zero-byte elements: array<null>
	let zero_sized = rng.chance(1, 25);
	let (rs, schema, input, valid, v) = if zero_sized {
		let p = |k: Kind| Node { kind: k, logical: None };
		let rs2 = match rng.below(3) {
			0 => RSchema {
				nodes: vec![p(Kind::Array(1)), p(Kind::Null)],
			},
			1 => RSchema {
				nodes: vec![
					p(Kind::Array(1)),
					p(Kind::Record {
						name: "E".into(),
						fields: vec![],
					}),
				],
			},
			_ => RSchema {
				nodes: vec![
					p(Kind::Record {
						name: "W".into(),
						fields: vec![("a".into(), 1), ("b".into(), 3)],
					}),
					p(Kind::Array(2)),
					p(Kind::Fixed {
						name: "Z".into(),
						size: 0,
					}),
					p(Kind::Long),
				],
			},
		};
		let mut b = Vec::new();
		let count = *rng.pick(&[1i64 << 62, i64::MAX, 1 << 45, 100_001, 5_000_000, 1 << 33]);
		put_long(count, &mut b);
		b.extend_from_slice(&[0, 0, 0, 0]);
		ctx.count("inputs:huge-count-zero-sized");
		let sc = make_schema(&rs2, SchemaVia::Builder, &mut rng).0;
		match sc {
			Ok(s) => (rs2, s, b, false, Val::Null),
			Err(_) => return,
		}
	} else {
		(rs, schema, input, valid, v)
	};

	// ---- limits and target
	let lim = Limits {
		allowed_depth: Some(*rng.pick(&[0usize, 1, 3, 16, 64, 64])),
		max_seq_size: Some(*rng.pick(&[0usize, 1, 10, 1000, 100_000, 100_000])),
		max_alloc_size: Some(*rng.pick(&[0usize, 16, 4096, 1 << 20])),
	};
	let target = *rng.pick(&[
		Target::Typed,
		Target::Typed,
		Target::TypedIgnoringCollections,
		Target::Ignored,
		Target::Any,
		Target::NoAlloc,
	]);
	let use_reader = rng.coin();
	let sched = if rng.coin() {
		vec![1]
	} else {
		crate::io::schedule(&mut rng, input.len())
	};
	let mut mo = ModeOwned::default_typed();
	if target == Target::TypedIgnoringCollections {
		let mut ig = HashSet::new();
		for (i, n) in rs.nodes.iter().enumerate() {
			if matches!(n.kind, Kind::Array(_) | Kind::Map(_)) {
				ig.insert(i);
			}
		}
		mo.ignore = Some(ig);
	}
	let describe = |extra: serde_json::Value| {
		json!({"schema": rs.spell(None).compact(), "input": hex_full(&input[..input.len().min(1024)]), "input_len": input.len(), "input_kind": input_kind,
			"limits": format!("{lim:?}"), "target": format!("{target:?}"), "reader": use_reader, "schedule": if use_reader { json!(sched) } else { json!(null) }, "extra": extra})
	};

	// ---- run under the monitors
	let stats = RefCell::new(Stats::default());
	let cpu0 = thread_cpu_ns();
	let run = || -> (Result<Option<Val>, String>, usize, bool, (u64, u64, u64)) {
		if use_reader {
			let mut rd = ChunkedBufRead::new(&input, sched.clone());
			let r = match target {
				Target::Typed | Target::TypedIgnoringCollections => {
					let m = mo.as_mode(&stats);
					de_reader_seed(&schema, &mut rd, &lim, Collect::root(&rs, &m)).map(Some)
				}
				Target::Ignored => de_reader_seed(&schema, &mut rd, &lim, std::marker::PhantomData::<IgnoredAny>).map(|_| None),
				Target::Any => de_reader_seed(&schema, &mut rd, &lim, AnySeed { stats: &stats, depth: 0 }).map(|_| None),
				Target::NoAlloc => de_reader_seed(&schema, &mut rd, &lim, NoAlloc).map(|_| None),
			};
			(r, rd.pos, rd.contract_broken, (rd.fill_calls, rd.consume_calls, rd.read_calls))
		} else {
			let (r, used) = match target {
				Target::Typed | Target::TypedIgnoringCollections => {
					let m = mo.as_mode(&stats);
					let (r, u) = de_slice_seed(&schema, &input, &lim, Collect::root(&rs, &m));
					(r.map(Some), u)
				}
				Target::Ignored => {
					let (r, u) = de_slice_seed(&schema, &input, &lim, std::marker::PhantomData::<IgnoredAny>);
					(r.map(|_| None), u)
				}
				Target::Any => {
					let (r, u) = de_slice_seed(&schema, &input, &lim, AnySeed { stats: &stats, depth: 0 });
					(r.map(|_| None), u)
				}
				Target::NoAlloc => {
					let (r, u) = de_slice_seed(&schema, &input, &lim, NoAlloc);
					(r.map(|_| None), u)
				}
			};
			(r, used, false, (0, 0, 0))
		}
	};
	let ((res, consumed, contract_broken, calls), al) = measure(run);
	let cpu = thread_cpu_ns() - cpu0;
	let st = stats.borrow().clone();
	ctx.max("cpu_us_one_case", cpu / 1000);
	ctx.max("alloc_bytes_one_case", al.bytes);
	match &res {
		Ok(_) => ctx.count("result:ok"),
		Err(e) => {
			ctx.count("result:err");
			if e.contains("recursivity limit") {
				ctx.count("depth_limit_rejections");
			} else if e.contains("max sequence size") {
				ctx.count("seq_limit_rejections");
			} else if e.contains("Allocation size") {
				ctx.count("alloc_limit_rejections");
			}
		}
	}
	// --- verdicts
	if contract_broken || consumed > input.len() {
		ctx.violation("read-outside-input (BufRead consume > filled)", case_seed, describe(json!({"consumed": consumed})));
	}
	if cpu > 3_000_000_000 && input.len() <= 65_536 {
		ctx.violation(
			"work-not-bounded-by-input-and-limits",
			case_seed,
			describe(json!({"cpu_seconds": cpu as f64 / 1e9})),
		);
	}
	let _ = calls;
	let typed_target = matches!(target, Target::Typed | Target::TypedIgnoringCollections);
	if typed_target && st.max_depth > lim.allowed_depth.unwrap() {
		ctx.violation(
			"depth-limit-exceeded",
			case_seed,
			describe(json!({"observed_nesting": st.max_depth, "ok": res.is_ok()})),
		);
	}
	if typed_target && st.max_seq_len > lim.max_seq_size.unwrap() {
		ctx.violation(
			"seq-limit-exceeded (elements produced)",
			case_seed,
			describe(json!({"observed_elements": st.max_seq_len, "ok": res.is_ok()})),
		);
	}
	// allocations made by the crate itself (targets that do not allocate)
	if matches!(target, Target::NoAlloc | Target::Ignored) {
		if !use_reader {
			if res.is_ok() {
				if al.calls != 0 {
					ctx.violation(
						"slice-path-allocates-on-success",
						case_seed,
						describe(json!({"alloc_calls": al.calls, "alloc_bytes": al.bytes})),
					);
				} else {
					ctx.count("slice_zero_alloc_ok");
				}
			} else if al.bytes > 4096 {
				ctx.violation(
					"slice-path-error-allocates-a-lot",
					case_seed,
					describe(json!({"alloc_calls": al.calls, "alloc_bytes": al.bytes})),
				);
			}
		} else {
			let cap = lim.max_alloc_size.unwrap() as u64;
			if al.largest > cap.max(64) + 512 {
				ctx.violation(
					"reader-single-allocation-above-max_alloc_size",
					case_seed,
					describe(json!({"largest_allocation": al.largest, "alloc_bytes": al.bytes})),
				);
			}
			if al.bytes > 4 * cap + 16 * input.len() as u64 + 8192 {
				ctx.violation(
					"reader-memory-not-bounded",
					case_seed,
					describe(json!({"alloc_bytes": al.bytes, "largest": al.largest})),
				);
			}
			ctx.count("reader_alloc_bounded_ok");
		}
	}
	// valid input: limits that are too small must give Err; sufficient limits must give Ok
	if valid {
		let need_depth = depth_cost(&rs, 0, &v);
		let need_seq = max_collection_len(&v);
		let need_field = max_field_len(&v);
		let ignoring_with_sized_blocks =
			!canonical_layout && matches!(target, Target::Ignored | Target::TypedIgnoringCollections);
		let mut must_err: Option<&str> = None;
		if need_seq > lim.max_seq_size.unwrap() && !ignoring_with_sized_blocks {
			must_err = Some("sequence longer than max_seq_size");
		}
		if need_depth > lim.allowed_depth.unwrap() && !ignoring_with_sized_blocks {
			// collections skipped by byte size are never descended into
			must_err = Some("nesting deeper than allowed_depth");
		}
		if use_reader
			&& matches!(target, Target::Typed | Target::Any | Target::NoAlloc)
			&& sched == vec![1]
			&& need_field >= 2
			&& need_field > lim.max_alloc_size.unwrap()
		{
			must_err = Some("field larger than max_alloc_size on reader input");
		}
		match (must_err, &res) {
			(Some(why), Ok(_)) => {
				ctx.violation(
					format!("limit-not-enforced ({why}) target={target:?}"),
					case_seed,
					describe(json!({"value": v.to_json(), "needs": {"depth": need_depth, "seq": need_seq, "field": need_field}})),
				);
			}
			(Some(_), Err(_)) => ctx.count("limit_must_err_observed"),
			(None, Err(e)) => {
				// sufficient limits: a valid encoding must decode
				let sufficient = need_seq <= lim.max_seq_size.unwrap()
					&& need_depth <= lim.allowed_depth.unwrap()
					&& (!use_reader || need_field <= lim.max_alloc_size.unwrap().max(1));
				if sufficient {
					ctx.violation(
						format!("valid-input-rejected-under-sufficient-limits {}", err_sig(e)),
						case_seed,
						describe(json!({"value": v.to_json(), "error": e, "needs": {"depth": need_depth, "seq": need_seq, "field": need_field}})),
					);
				}
			}
			(None, Ok(got)) => {
				if let Some(g) = got {
					if mo.ignore.is_none() && g != &v {
						ctx.violation("valid-input-wrong-value", case_seed, describe(json!({"value": v.to_json()})));
					}
				}
				ctx.count("valid_ok_within_limits");
			}
		}
	}
	ctx.distinct_bytes(&[
		&shape_hash(&rs).to_le_bytes(),
		&input,
		format!("{lim:?}{target:?}{use_reader}").as_bytes(),
	]);
	ctx.sample(|| describe(json!({"result": format!("{:?}", res.as_ref().map(|_| "ok")).chars().take(200).collect::<String>(), "cpu_us": cpu / 1000, "alloc": format!("{al:?}")})));

	// ---- dedicated deep-nesting run on a small stack
	if deep && rng.chance(1, 4) {
		let schema_json = schema.json().to_owned();
		let inp = input.clone();
		let h = std::thread::Builder::new()
			.stack_size(2 << 20)
			.spawn(move || {
				let schema: serde_avro_fast::Schema = match schema_json.parse() {
					Ok(s) => s,
					Err(_) => return,
				};
				let _ = serde_avro_fast::from_datum_slice::<IgnoredAny>(&inp, &schema);
				let _ = serde_avro_fast::from_datum_reader::<_, crate::props::c11::AnyOwned>(&inp[..], &schema);
			})
			.unwrap();
		let _ = h.join();
		ctx.count("deep_on_2MiB_stack");
	}
}
