pub mod schema;
pub mod value;
